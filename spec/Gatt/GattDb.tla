------------------------------- MODULE GattDb -------------------------------
(* Reference construction of the GATT attribute table of a Bluetoe server declaration.   *)
(*                                                                                        *)
(* Build(d) is the table that the Bluetooth Core specification (Vol 3 Part G, 3.1 - 3.3)  *)
(* and the Bluetoe documentation (server.hpp, service.hpp, characteristic.hpp,            *)
(* attribute_handle.hpp, gap_service.hpp) prescribe for the abstract declaration d.       *)
(* It is transcribed from the documentation, NOT from the handle mapping code:            *)
(*   - attributes appear in declaration order; handles are assigned sequentially from 1;  *)
(*   - attribute_handle<H> on a service puts the service declaration on H, on a           *)
(*     characteristic it puts the characteristic declaration on H; attribute_handles<D,V,C>*)
(*     puts declaration, value and CCCD on D, V, C; "all following attributes are         *)
(*     assigned handles with a larger value" (= the next free ones);                      *)
(*   - a service is: service declaration, one include declaration per include_service<>,  *)
(*     then the characteristics; a characteristic is: declaration, value, CCCD (if notify *)
(*     or indicate), Characteristic User Description (if characteristic_name<>)  - the    *)
(*     order documented in generate_characteristic_attributes;                            *)
(*   - unless no_gap_service_for_gatt_servers is given, the GAP service 0x1800 with Device*)
(*     Name 0x2A00 and Appearance 0x2A01 is appended as the last service.                 *)
(*                                                                                        *)
(* A declaration is the record that tools/gen_server.py writes as <name>.norm.json (see   *)
(* spec/Gatt/README.md); UUIDs, names and values are little-endian byte sequences.        *)
(* C04 is stated on the table by TableOK; GattDbTrace.tla binds the real server to it.    *)
EXTENDS Integers, Sequences, FiniteSets

\* ---------------------------------------------------------------------------- bytes
LE16(n) == <<n % 256, (n \div 256) % 256>>
U16(b, i) == b[i] + 256 * b[i + 1]                    \* 16 bit little endian at position i of b
Max(a, b) == IF a > b THEN a ELSE b
Min(a, b) == IF a < b THEN a ELSE b

UPrimary   == LE16(10240)    \* 0x2800
USecondary == LE16(10241)    \* 0x2801
UInclude   == LE16(10242)    \* 0x2802
UCharDecl  == LE16(10243)    \* 0x2803
UUserDesc  == LE16(10497)    \* 0x2901
UCccd      == LE16(10498)    \* 0x2902
UGap       == LE16(6144)     \* 0x1800
UDevName   == LE16(10752)    \* 0x2A00
UAppear    == LE16(10753)    \* 0x2A01

\* ---------------------------------------------------------------------------- declaration
NoHandles == <<0, 0, 0>>

\* a characteristic record with every field (the GAP service is built from it)
DefaultChar == [uuid |-> <<0, 0>>, vkind |-> "fixed", init |-> <<>>, hread |-> FALSE, hwrite |-> FALSE,
                no_read |-> FALSE, no_write |-> FALSE, notify |-> FALSE, indicate |-> FALSE,
                has_name |-> FALSE, name |-> <<>>, handle |-> 0, handles |-> NoHandles, enc |-> "inherit"]

GapService(d) ==
    [uuid |-> UGap, secondary |-> FALSE, handle |-> 0, includes |-> <<>>, enc |-> "inherit",
     chars |-> << [DefaultChar EXCEPT !.uuid = UDevName, !.vkind = "fixed", !.init = d.opts.sname],
                  [DefaultChar EXCEPT !.uuid = UAppear, !.vkind = "fixed_uint", !.init = LE16(d.opts.appearance)] >>]

\* all services of the server, the implicit GAP service included
Services(d) == IF d.opts.gap THEN Append(d.services, GapService(d)) ELSE d.services

\* encryption.hpp: the innermost explicit option wins; may_require_encryption does not require
EncStep(def, opt) == IF opt = "requires" THEN TRUE ELSE IF opt = "none" THEN FALSE ELSE def
CharEnc(d, s, c) == EncStep(EncStep(EncStep(FALSE, d.opts.enc), s.enc), c.enc)

HasCccd(c)  == c.notify \/ c.indicate
HasRead(c)  == CASE c.vkind \in {"bound", "const", "fixed_uint"} -> ~c.no_read
                 [] c.vkind = "fixed"   -> TRUE
                 [] c.vkind = "handler" -> c.hread /\ ~c.no_read
HasWrite(c) == CASE c.vkind = "bound"   -> ~c.no_write
                 [] c.vkind = "handler" -> c.hwrite
                 [] OTHER               -> FALSE
\* Characteristic Properties octet (Vol 3 Part G 3.3.1.1): read 0x02, write 0x08, notify 0x10, indicate 0x20
Props(c) == (IF HasRead(c) THEN 2 ELSE 0) + (IF HasWrite(c) THEN 8 ELSE 0)
          + (IF c.notify THEN 16 ELSE 0) + (IF c.indicate THEN 32 ELSE 0)

\* ---------------------------------------------------------------------------- construction
Attr(h, type, kind, k, j, val, rd, wr, enc, inc, fixed) ==
    [h |-> h, type |-> type, kind |-> kind, svc |-> k, chr |-> j, val |-> val,
     rd |-> rd, wr |-> wr, enc |-> enc, inc |-> inc, fixed |-> fixed]

UsesHandles(c) == c.handles[1] # 0
DeclHandle(c, cur) == IF c.handle # 0 THEN c.handle ELSE IF UsesHandles(c) THEN c.handles[1] ELSE cur
ValueHandle(c, cur) == IF UsesHandles(c) THEN c.handles[2] ELSE DeclHandle(c, cur) + 1
CccdHandle(c, cur) == IF UsesHandles(c) /\ c.handles[3] # 0 THEN c.handles[3] ELSE ValueHandle(c, cur) + 1

\* attributes of characteristic j of service k; cur = next free handle
CharAttrs(d, k, j, cur) ==
    LET s  == Services(d)[k]
        c  == s.chars[j]
        dh == DeclHandle(c, cur)
        vh == ValueHandle(c, cur)
        ch == CccdHandle(c, cur)
        e  == CharEnc(d, s, c)
        nx == IF HasCccd(c) THEN ch + 1 ELSE vh + 1
        decl  == Attr(dh, UCharDecl, "chardecl", k, j, <<Props(c)>> \o LE16(vh) \o c.uuid,
                      TRUE, FALSE, FALSE, 0, c.handle # 0 \/ UsesHandles(c))
        value == Attr(vh, c.uuid, "value", k, j, c.init, HasRead(c), HasWrite(c), e, 0, UsesHandles(c))
        cccd  == Attr(ch, UCccd, "cccd", k, j, <<0, 0>>, TRUE, TRUE, e, 0, UsesHandles(c) /\ c.handles[3] # 0)
        desc  == Attr(nx, UUserDesc, "userdesc", k, j, c.name, TRUE, FALSE, FALSE, 0, FALSE)
    IN  <<decl, value>> \o (IF HasCccd(c) THEN <<cccd>> ELSE <<>>) \o (IF c.has_name THEN <<desc>> ELSE <<>>)

RECURSIVE CharsFrom(_, _, _, _, _)
CharsFrom(d, k, j, cur, acc) ==
    IF j > Len(Services(d)[k].chars) THEN acc
    ELSE LET a == CharAttrs(d, k, j, cur)
         IN  CharsFrom(d, k, j + 1, a[Len(a)].h + 1, acc \o a)

\* attributes of service k (include values are filled in by Build)
ServiceAttrs(d, k, cur) ==
    LET s  == Services(d)[k]
        sh == IF s.handle # 0 THEN s.handle ELSE cur
        decl == Attr(sh, IF s.secondary THEN USecondary ELSE UPrimary,
                     IF s.secondary THEN "secondary" ELSE "primary", k, 0, s.uuid,
                     TRUE, FALSE, FALSE, 0, s.handle # 0)
        incs == [i \in 1..Len(s.includes) |->
                     Attr(sh + i, UInclude, "include", k, 0, <<>>, TRUE, FALSE, FALSE, s.includes[i], FALSE)]
    IN  CharsFrom(d, k, 1, sh + Len(s.includes) + 1, <<decl>> \o incs)

RECURSIVE SvcsFrom(_, _, _, _)
SvcsFrom(d, k, cur, acc) ==
    IF k > Len(Services(d)) THEN acc
    ELSE LET a == ServiceAttrs(d, k, cur)
         IN  SvcsFrom(d, k + 1, a[Len(a)].h + 1, acc \o a)

Skeleton(d) == SvcsFrom(d, 1, 1, <<>>)

\* handle range of service k in table t
SvcIdx(t, k)   == {i \in 1..Len(t) : t[i].svc = k}
SvcFirst(t, k) == t[CHOOSE i \in SvcIdx(t, k) : \A j \in SvcIdx(t, k) : i <= j].h
SvcLast(t, k)  == t[CHOOSE i \in SvcIdx(t, k) : \A j \in SvcIdx(t, k) : i >= j].h

\* Include declaration value (Vol 3 Part G 3.2): included service handle, end group handle and the
\* service UUID only when it is a 16 bit UUID
IncludeValue(d, t, k) ==
    LET u == Services(d)[k].uuid
    IN  LE16(SvcFirst(t, k)) \o LE16(SvcLast(t, k)) \o (IF Len(u) = 2 THEN u ELSE <<>>)

Build(d) ==
    LET sk == Skeleton(d)
    IN  [i \in 1..Len(sk) |-> IF sk[i].kind = "include"
                              THEN [sk[i] EXCEPT !.val = IncludeValue(d, sk, sk[i].inc)]
                              ELSE sk[i]]

\* ---------------------------------------------------------------------------- well-formedness
\* what a declaration must satisfy to be a legal Bluetoe server (everything else is a
\* compile time error or documented misuse); checked by gen_server.py too
RECURSIVE CursorOK(_, _, _)
\* fixed handles never go backwards: every fixed handle is >= the next free handle at its place
CursorOK(t, i, cur) ==
    IF i > Len(t) THEN TRUE
    ELSE t[i].h >= cur /\ CursorOK(t, i + 1, t[i].h + 1)

FirstWithUuid(d, u) == CHOOSE k \in 1..Len(Services(d)) :
                          Services(d)[k].uuid = u /\ \A m \in 1..(k - 1) : Services(d)[m].uuid # u

WellFormed(d) ==
    /\ Len(d.services) >= 1
    /\ \A k \in 1..Len(d.services) :
         LET s == d.services[k] IN
         /\ \A i \in 1..Len(s.includes) :
               /\ s.includes[i] \in 1..Len(d.services) /\ s.includes[i] # k
               /\ FirstWithUuid(d, d.services[s.includes[i]].uuid) = s.includes[i]   \* include is by UUID
         /\ \A j \in 1..Len(s.chars) :
               LET c == s.chars[j] IN
               /\ ~(c.handle # 0 /\ UsesHandles(c))
               /\ UsesHandles(c) => /\ c.handles[2] > c.handles[1]
                                    /\ c.handles[3] = 0 \/ (HasCccd(c) /\ c.handles[3] > c.handles[2])
               /\ c.vkind = "fixed" => ~c.notify /\ ~c.indicate /\ ~c.no_read
               /\ c.vkind = "handler" => (c.hread \/ c.hwrite) /\ (HasCccd(c) => c.hread) /\ ~(c.no_write /\ c.hwrite)
               /\ Len(c.uuid) \in {2, 16}
    /\ CursorOK(Skeleton(d), 1, 1)
    /\ Skeleton(d)[Len(Skeleton(d))].h <= 65535

\* ---------------------------------------------------------------------------- C04 on the table
AttrAt(t, h)  == CHOOSE i \in 1..Len(t) : t[i].h = h
HasAttr(t, h) == \E i \in 1..Len(t) : t[i].h = h
MaxHandle(t)  == t[Len(t)].h

HandlesOK(t) ==                                   \* unique, non-zero, increasing in declaration order
    /\ \A i \in 1..Len(t) : t[i].h \in 1..65535
    /\ \A i \in 1..(Len(t) - 1) : t[i].h < t[i + 1].h

SequentialOK(t) ==                                \* without a fixed handle option: the next free handle
    /\ (~t[1].fixed) => t[1].h = 1
    /\ \A i \in 2..Len(t) : (~t[i].fixed) => t[i].h = t[i - 1].h + 1

FixedOK(d, t) ==                                  \* requested handles are honoured
    \A k \in 1..Len(d.services) :
        LET s == d.services[k] IN
        /\ s.handle # 0 => \E i \in 1..Len(t) : t[i].svc = k /\ t[i].chr = 0 /\ t[i].kind \in {"primary", "secondary"} /\ t[i].h = s.handle
        /\ \A j \in 1..Len(s.chars) :
              LET c == s.chars[j]
                  at(kind) == {i \in 1..Len(t) : t[i].svc = k /\ t[i].chr = j /\ t[i].kind = kind}
              IN  /\ c.handle # 0 => \A i \in at("chardecl") : t[i].h = c.handle
                  /\ UsesHandles(c) => /\ \A i \in at("chardecl") : t[i].h = c.handles[1]
                                       /\ \A i \in at("value") : t[i].h = c.handles[2]
                                       /\ c.handles[3] # 0 => \A i \in at("cccd") : t[i].h = c.handles[3]
                  /\ Cardinality(at("chardecl")) = 1 /\ Cardinality(at("value")) = 1
                  /\ Cardinality(at("cccd")) = (IF HasCccd(c) THEN 1 ELSE 0)

CharDeclOK(d, t) ==                               \* declaration = [properties, value handle, UUID]
    \A i \in 1..Len(t) : t[i].kind = "chardecl" =>
        /\ i < Len(t) /\ t[i + 1].kind = "value" /\ t[i + 1].svc = t[i].svc /\ t[i + 1].chr = t[i].chr
        /\ t[i].val = <<Props(Services(d)[t[i].svc].chars[t[i].chr])>> \o LE16(t[i + 1].h) \o t[i + 1].type

IncludeOK(d, t) ==                                \* include = [first, last (, UUID16)] of the real range
    \A i \in 1..Len(t) : t[i].kind = "include" =>
        LET k   == t[i].inc
            idx == {m \in 1..Len(t) : t[m].svc = k}
            u   == Services(d)[k].uuid
        IN  /\ idx # {}
            /\ U16(t[i].val, 1) = t[CHOOSE m \in idx : \A n \in idx : m <= n].h
            /\ t[AttrAt(t, U16(t[i].val, 1))].kind \in {"primary", "secondary"}
            /\ U16(t[i].val, 3) = t[CHOOSE m \in idx : \A n \in idx : m >= n].h
            /\ \A m \in 1..Len(t) : (t[m].h >= U16(t[i].val, 1) /\ t[m].h <= U16(t[i].val, 3)) <=> m \in idx
            /\ Len(t[i].val) = (IF Len(u) = 2 THEN 6 ELSE 4)
            /\ Len(u) = 2 => SubSeq(t[i].val, 5, 6) = u

GroupsOK(d, t) ==                                 \* services are contiguous and in declaration order
    /\ \A i \in 1..(Len(t) - 1) : t[i].svc <= t[i + 1].svc
    /\ \A k \in 1..Len(Services(d)) : \E i \in 1..Len(t) : t[i].svc = k
    /\ \A i \in 1..Len(t) : (t[i].kind \in {"primary", "secondary"}) <=> (i = 1 \/ t[i - 1].svc # t[i].svc)

TableOK(d, t) == HandlesOK(t) /\ SequentialOK(t) /\ FixedOK(d, t) /\ CharDeclOK(d, t) /\ IncludeOK(d, t) /\ GroupsOK(d, t)
=============================================================================
