CONSTANTS
  MaxServices = 2  MaxChars = 2  MaxTotalChars = 2  MaxIncludes = 1
  Gaps = {2}  GapOpts = {TRUE, FALSE}
  VKinds = {"bound"}  EncOpts = {"inherit"}  CharIds = {1}
  ShellKinds <- ShellKindsSmall
  Sizes = {1}  Cccds = {"none", "notify"}
SPECIFICATION Spec
INVARIANTS Legal C04
CHECK_DEADLOCK FALSE
