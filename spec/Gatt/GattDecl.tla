------------------------------ MODULE GattDecl ------------------------------
(* The space of abstract GATT server declarations, defined constructively (DESIGN 2.4).   *)
(* A behaviour builds ONE declaration: Init chooses the server options and the list of    *)
(* service shells (kind, UUID width), then the services are filled in declaration order:  *)
(* service options (fixed start handle, include declarations of ANY other service), then  *)
(* characteristics one by one.  Fixed handles are chosen as "next free handle + gap", so  *)
(* every reachable declaration is well formed (handles never go backwards).               *)
(*                                                                                        *)
(*  - exhaustive (MC.cfg / MCThorough.cfg): TLC enumerates every declaration within the   *)
(*    bounds and checks the C04 invariants GattDb!TableOK on the reference table of each  *)
(*    (guards the oracle itself) - invariant C04;                                         *)
(*  - sampling (GattDeclGen.tla, -simulate): every behaviour is one random declaration.   *)
EXTENDS GattDb, TLC

CONSTANTS MaxServices,        \* number of declared services 1..MaxServices
          MaxChars,           \* characteristics per service 0..MaxChars
          MaxTotalChars,      \* characteristics per server
          MaxIncludes,        \* include declarations per service
          Gaps,               \* distances between the next free handle and a requested fixed handle
          GapOpts,            \* subset of BOOLEAN: with / without the implicit GAP service
          VKinds,             \* value kinds to use
          EncOpts,            \* encryption options to use at server / service / characteristic level
          CharIds,            \* pool of characteristic UUID numbers (small pool = duplicate UUIDs)
          ShellKinds,         \* subset of BOOLEAN \X BOOLEAN: allowed <<secondary, 128 bit UUID>> of a service
          Sizes,              \* value sizes
          Cccds               \* subset of {"none", "notify", "indicate"}

\* values for ShellKinds (a configuration file cannot write tuples): ShellKinds <- ShellKindsSmall
ShellKindsSmall == {<<FALSE, FALSE>>, <<TRUE, TRUE>>}
ShellKindsAll   == BOOLEAN \X BOOLEAN

VARIABLES d,       \* the declaration under construction (always a complete, legal declaration)
          k,       \* index of the service being filled; Len(d.services) + 1 = finished
          opened   \* service k got its options already
dvars == <<d, k, opened>>

Bytes0(n) == [i \in 1..n |-> 0]
SvcUuid(i, wide) == IF wide THEN <<i, 146, 209, 145, 17, 171, 91, 88, 176, 59, 79, 80, 68, 82, 110, 66>> ELSE LE16(40960 + i)
ChrUuid(i, wide) == IF wide THEN <<i, 60, 199, 91, 237, 78, 138, 162, 159, 73, 226, 13, 148, 64, 139, 140>> ELSE LE16(45056 + i)

NoPrio == [kind |-> "none", list |-> <<>>]
Shell(i, sec, wide) == [uuid |-> SvcUuid(i, wide), secondary |-> sec, handle |-> 0, includes |-> <<>>,
                        enc |-> "inherit", prio |-> NoPrio, chars |-> <<>>]

ShellLists == UNION {[1..n -> ShellKinds] : n \in 1..MaxServices}

Init ==
    /\ \E sl \in ShellLists, g \in GapOpts, e \in EncOpts :
         d = [name |-> "generated",
              opts |-> [wq |-> 0, mtu |-> 65, enc |-> e, gap |-> g, sname |-> <<83, 114, 118>>, has_sname |-> FALSE,
                        appearance |-> 0, prio |-> NoPrio],
              services |-> [i \in 1..Len(sl) |-> Shell(i, sl[i][1], sl[i][2])]]
    /\ k = 1 /\ opened = FALSE

\* next free handle after the first n services of d (the shells behind them do not count)
NextFree(n) ==
    IF n = 0 THEN 1
    ELSE LET p == [d EXCEPT !.services = SubSeq(d.services, 1, n), !.opts.gap = FALSE]
         IN  MaxHandle(Skeleton(p)) + 1

TotalChars == LET S == d.services IN
              IF Len(S) = 0 THEN 0 ELSE Len(S[1].chars) + (IF Len(S) >= 2 THEN Len(S[2].chars) ELSE 0)
                                      + (IF Len(S) >= 3 THEN Len(S[3].chars) ELSE 0) + (IF Len(S) >= 4 THEN Len(S[4].chars) ELSE 0)

\* sequences of distinct other services of length <= MaxIncludes that include_service<> can name (first of its UUID)
IncludeLists == {<<>>} \cup {<<i>> : i \in (1..Len(d.services)) \ {k}}
                \cup (IF MaxIncludes >= 2 THEN {<<i, j>> : i \in (1..Len(d.services)) \ {k}, j \in (1..Len(d.services)) \ {k}} ELSE {})

OpenService ==
    /\ k <= Len(d.services) /\ ~opened
    /\ \E fix \in {-1} \cup Gaps, inc \in IncludeLists, e \in EncOpts :
         /\ Len(inc) = 2 => inc[1] # inc[2]
         /\ d' = [d EXCEPT !.services[k].handle = IF fix = -1 THEN 0 ELSE NextFree(k - 1) + fix,
                           !.services[k].includes = inc,
                           !.services[k].enc = e]
    /\ opened' = TRUE /\ k' = k

CharShapes ==
    [wide : BOOLEAN, id : CharIds, vkind : VKinds, size : Sizes, cccd : Cccds, named : BOOLEAN,
     fix : {"none", "handle", "handles"}, gap : Gaps, enc : EncOpts]

\* the shapes AddChar chooses from; the sampler replaces it by one random shape (ShapeChoices <- RandomShapes)
ShapeChoices == CharShapes

Char(sh, cur) ==
    LET dh == cur + sh.gap
        vh == dh + 1 + sh.gap
        has == sh.cccd # "none"
    IN  [DefaultChar EXCEPT
            !.uuid = ChrUuid(sh.id, sh.wide), !.vkind = sh.vkind,
            !.init = IF sh.vkind = "fixed_uint" THEN Bytes0(2) ELSE Bytes0(sh.size),
            !.hread = (sh.vkind = "handler"), !.hwrite = (sh.vkind = "handler"),
            !.notify = (sh.cccd = "notify"), !.indicate = (sh.cccd = "indicate"),
            !.has_name = sh.named, !.name = IF sh.named THEN <<110, 48 + sh.id>> ELSE <<>>,
            !.handle = IF sh.fix = "handle" THEN dh ELSE 0,
            !.handles = IF sh.fix = "handles" THEN <<dh, vh, IF has THEN vh + 1 + sh.gap ELSE 0>> ELSE NoHandles,
            !.enc = sh.enc]

AddChar ==
    /\ k <= Len(d.services) /\ opened
    /\ Len(d.services[k].chars) < MaxChars /\ TotalChars < MaxTotalChars
    /\ \E sh \in ShapeChoices :
         /\ sh.fix = "none" => sh.gap = CHOOSE g \in Gaps : \A h \in Gaps : g <= h     \* gap is meaningless without a fixed handle
         /\ sh.vkind = "fixed" => sh.cccd = "none"
         /\ d' = [d EXCEPT !.services[k].chars = Append(@, Char(sh, NextFree(k)))]
    /\ UNCHANGED <<k, opened>>

CloseService ==
    /\ k <= Len(d.services) /\ opened
    /\ k' = k + 1 /\ opened' = FALSE /\ UNCHANGED d

Next == OpenService \/ AddChar \/ CloseService
Spec == Init /\ [][Next]_dvars

Finished == k = Len(d.services) + 1

\* every declaration this module can produce is legal, and its reference table satisfies C04
Legal == WellFormed(d)
C04   == TableOK(d, Build(d))
=============================================================================
