CONSTANTS Starts <- CornerStarts  Ends <- CornerEnds  Mtus = {23}
SPECIFICATION Spec
INVARIANTS Enumerates Sound NoSecondary
CHECK_DEADLOCK FALSE
