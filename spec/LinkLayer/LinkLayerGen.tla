---------------------------- MODULE LinkLayerGen ----------------------------
(* Behaviour generator for the link layer checks.  A behaviour is what the ENVIRONMENT of the      *)
(* link layer does: the connect request of the central, which connection events are lost, which    *)
(* PDUs the central queues (instants are given relative to the event of their first transmission), *)
(* which flags the radio reports, what the application does between two events.  It does not        *)
(* depend on choices of the link layer (the simulated central of harness/ll derives its timing     *)
(* from the parameters it sent, like a real central), so the same behaviour can be replayed on     *)
(* every link layer variant.  Every op is a script line of harness/ll/ll_harness.cpp (README.md).  *)
(*                                                                                                 *)
(* BFS over GNext enumerates ALL behaviours of a family within its bounds; -simulate gives random  *)
(* deep ones.  Families (constant Family):                                                         *)
(*   "connreq"  CONNECT_IND parameter grid at the Core specification limits (each bound -1/0/+1)   *)
(*   "superv"   every lost/received pattern of length D for small supervision timeouts, all SCAs    *)
(*   "update"   connection update (valid instant) x new parameters x losses around the instant     *)
(*   "latency"  latency 0..3 x radio flags x losses x notify + cancelation x latency configuration *)
(*   "instant"  update / channel map / PHY indications with instants at signed distance -DMinNeg..DMax*)
(*              from the event of reception x latency x losses x traffic while pending x cancel    *)
(*   "latbound" latency VALUE boundaries (Lats, e.g. 0,1,2,36,37,38,74,255,256,481,482,483,498,499; *)
(*              interval / supervision timeout chosen valid for the latency) x pull back of the     *)
(*              planned event by almost everything / half / one event (notify + cancelation,        *)
(*              disarmable or not) x channel index of the planned event (event index mod 37 in      *)
(*              0,1,17,18,35,36; `seek`) x hop x channel map x latency configuration                *)
(*              and (WLats) the same pull backs for a planned event at / after the wrap of the 16   *)
(*              bit event counter (planned index 65536*j + 0 | latency/2 | latency, pulled back     *)
(*              across it)                                                                          *)
EXTENDS Integers, Sequences, FiniteSets, TLC, Json

CONSTANTS Family, D,
          Lats,         \* latencies used by "latency" / "instant"
          DMinNeg, DMax, \* instant distances -DMinNeg..DMax ("instant"; TLC cfg files have no negative literals)
          Wraps,        \* fast-forward amounts used to reach the wrap of the 16 bit event counter ("instant")
          Small,        \* TRUE: reduced parameter sets (quick tier)
          NCfg,         \* number of run-time switchable latency configurations of the variant (1 if none)
          WLats,        \* latencies of the counter wrap behaviours of "latbound"
          Rots          \* rotation indices of "latbound" (Small: which hop / timeout / configuration is paired with which
                        \* latency; wrap behaviours: which wrap position is paired with which pull back distance)

VARIABLES hist, stage, n

gvars == <<hist, stage, n>>

FullMap   == <<255, 255, 255, 255, 31>>
SparseMap == <<85, 85, 85, 85, 21>>
OddMap    == <<170, 170, 170, 170, 10>>
TwoMap    == <<0, 1, 0, 0, 16>>
OneMap    == <<0, 0, 4, 0, 0>>
NoMap     == <<0, 0, 0, 0, 0>>

\* cconnect ws wo int lat to m0..m4 hop sca x0
Conn(ws, wo, int, lat, to, map, hop, sca, x0) == <<"cconnect", ws, wo, int, lat, to>> \o map \o <<hop, sca, x0>>
Step(lost, flags, nexch) == <<"step", lost, flags, nexch>>

Max(a, b) == IF a > b THEN a ELSE b
Do(op)   == hist' = Append(hist, op)
DoAll(s) == hist' = hist \o s

-----------------------------------------------------------------------------
(* "connreq": base request with one parameter (or one related pair) moved across its limit *)
Base == [ws |-> 2, wo |-> 3, int |-> 24, lat |-> 0, to |-> 72, map |-> FullMap, hop |-> 10, sca |-> 5, x0 |-> 0]

ConnGrid ==
    {[Base EXCEPT !.int = i, !.to = 3200, !.ws = 1, !.wo = 0] : i \in {0, 1, 2, 5, 6, 7, 3199, 3200, 3201, 4000, 6400}}
    \cup {[Base EXCEPT !.int = 6, !.to = 3200, !.lat = x] : x \in {0, 1, 498, 499, 500, 501, 65535}}
    \cup {[Base EXCEPT !.to = t] : t \in {0, 9, 10, 11, 12, 13, 3199, 3200, 3201, 65535}}
    \cup {[Base EXCEPT !.int = 40, !.lat = 3, !.to = t] : t \in {39, 40, 41}}          \* to*10ms vs (1+lat)*int*2.5ms
    \cup {[Base EXCEPT !.int = 800, !.lat = 1, !.to = t] : t \in {399, 400, 401}}
    \cup {[Base EXCEPT !.ws = w] : w \in {0, 1, 7, 8, 9, 255}}
    \cup {[Base EXCEPT !.int = 6, !.to = 10, !.wo = 0, !.ws = w] : w \in {4, 5, 6, 7}}  \* size vs interval - 1.25ms
    \cup {[Base EXCEPT !.wo = w] : w \in {0, 1, 23, 24, 25, 65535}}
    \cup {[Base EXCEPT !.wo = 24, !.ws = 8, !.x0 = x] : x \in {0, 10000}}
    \cup {[Base EXCEPT !.hop = h] : h \in {0, 4, 5, 6, 15, 16, 17, 31}}
    \cup {[Base EXCEPT !.map = mp] : mp \in {FullMap, SparseMap, OddMap, TwoMap, OneMap, NoMap}}
    \cup {[Base EXCEPT !.sca = s, !.x0 = 2500] : s \in 0..7}

LossPatterns == { <<0, 0, 1, 0>>, <<1, 1, 0, 0>> } \cup { [i \in 1..(k + 2) |-> IF i <= k THEN 1 ELSE 0] : k \in {5, 6} }

ConnOf(p) == Conn(p.ws, p.wo, p.int, p.lat, p.to, p.map, p.hop, p.sca, p.x0)
StepsOf(pat) == [i \in 1..Len(pat) |-> Step(pat[i], 0, 1)]

ConnReqNext ==
    /\ stage = "init"
    /\ \E p \in ConnGrid, pat \in LossPatterns :
            DoAll(<<ConnOf(p)>> \o StepsOf(pat))
    /\ stage' = "done" /\ n' = n

-----------------------------------------------------------------------------
(* "superv": small supervision timeouts, every loss pattern of length D (BFS) *)
SupSet == { [Base EXCEPT !.int = 6,  !.to = 10, !.wo = 0, !.ws = 1],       \* 100 ms / 7.5 ms
            [Base EXCEPT !.int = 16, !.to = 10, !.sca = 0],                  \* 100 ms / 20 ms, 500+own ppm
            [Base EXCEPT !.int = 24, !.to = 13, !.lat = 1, !.sca = 7],
            [Base EXCEPT !.int = 3200, !.to = 3200, !.wo = 3200, !.ws = 8, !.sca = 0, !.x0 = 5000] }  \* 32 s / 4 s

SupervNext ==
    \/ /\ stage = "init"
       /\ \E p \in SupSet, k \in 0..2 : DoAll(<<ConnOf(p)>> \o [i \in 1..(k + 1) |-> Step(IF i <= k THEN 1 ELSE 0, 0, 1)])
       /\ stage' = "conn" /\ n' = 0
    \/ /\ stage = "conn" /\ n < D
       /\ \E lost \in {0, 1} : Do(Step(lost, 0, 1))
       /\ n' = n + 1 /\ stage' = IF n + 1 = D THEN "done" ELSE "conn"

-----------------------------------------------------------------------------
(* "update": connection update with a valid instant; losses around the instant *)
\* q upd d ws wo int lat to x1
UpdSet == { <<1, 0, 24, 0, 72, 0>>,            \* same interval, minimal window at offset 0
            <<8, 24, 24, 0, 72, 10000>>,        \* offset = old interval, widest window, central at its end
            <<3, 5, 40, 1, 200, 1250>>,         \* longer interval, latency 1
            <<2, 1, 6, 0, 10, 0>>,              \* shortest interval, shortest timeout
            <<4, 7, 16, 2, 30, 2500>> }

UpdSmall == { <<8, 24, 24, 0, 72, 10000>>, <<3, 5, 40, 1, 200, 1250>>, <<2, 1, 6, 0, 10, 0>> }

UpdateNext ==
    \/ /\ stage = "init"
       /\ \E lat \in (IF Small THEN {2} ELSE {0, 2}), sca \in (IF Small THEN {1} ELSE {1, 6}) :
             DoAll(<<Conn(2, 3, 24, lat, 72, FullMap, 7, sca, 1000), Step(0, 0, 1)>>)
       /\ stage' = "q" /\ n' = 0
    \/ /\ stage = "q"
       /\ \E u \in (IF Small THEN UpdSmall ELSE UpdSet), d \in (IF Small THEN {2, 6} ELSE {2, 3, 6}) :
             /\ DoAll(<<<<"q", "upd", d>> \o u, Step(0, 0, 1)>>)
             /\ n' = d + 3
       /\ stage' = "conn"
    \/ /\ stage = "conn" /\ n > 0
       /\ \E lost \in (IF n <= 5 THEN {0, 1} ELSE {0}) : Do(Step(lost, 0, 1))
       /\ n' = n - 1 /\ stage' = IF n = 1 THEN "done" ELSE "conn"

-----------------------------------------------------------------------------
(* "latency": latency x flags of the radio x losses x application data x configuration switches *)
FlagSet == {0, 1, 2, 4, 8, 16, 32}      \* none, unack, rx not empty, tx not empty, MD, pending, error

LatencyNext ==
    \/ /\ stage = "init"
       /\ \E lat \in Lats, mp \in (IF Small THEN {FullMap} ELSE {FullMap, SparseMap}), c \in 0..(NCfg - 1) :
             DoAll((IF NCfg > 1 THEN <<<<"latcfg", c>>>> ELSE <<>>)
                   \o <<Conn(2, 3, 24, lat, 300, mp, 9, 5, 0), Step(0, 0, 1), <<"q", "cccd", 1>>, Step(0, 0, 1), Step(0, 0, 1), Step(0, 0, 1)>>)
       /\ stage' = "conn" /\ n' = 0
    \/ /\ stage = "conn" /\ n < D
       /\ \/ \E fl \in FlagSet : Do(Step(0, fl, 1))
          \/ Do(Step(1, 0, 1))
          \/ \E num \in {1, 3} : DoAll(<<<<"notify", num, 4>>, <<"cancel">>>>)
          \/ DoAll(<<<<"notify", 1, 4>>, <<"cancel", 0, 0>>>>)                 \* radio cannot be disarmed
          \/ NCfg > 1 /\ \E c \in 0..(NCfg - 1) : Do(<<"latcfg", c>>)
          \/ Do(<<"q", "feat">>)
          \/ \E d \in {2, 4} : Do(<<"q", "chm", d>> \o OddMap)
       /\ n' = n + 1 /\ stage' = IF n + 1 = D THEN "tail" ELSE "conn"
    \/ /\ stage = "tail"
       /\ DoAll(<<Step(0, 0, 1), Step(0, 0, 1)>>)
       /\ stage' = "done" /\ n' = n

-----------------------------------------------------------------------------
(* "latbound" / "latwrap": boundaries of the peripheral latency VALUE.                              *)
(* Interval and supervision timeout are valid for the latency (Core Vol 6 Part B 4.5.2: timeout >   *)
(* (1 + latency) * interval * 2 and <= 32 s): 7.5 ms for the large latencies.                       *)
IntFor(lat)  == IF lat > 200 THEN 6 ELSE IF lat > 40 THEN 12 ELSE 24
ToMin(lat)   == Max(10, ((1 + lat) * IntFor(lat)) \div 4 + 1)           \* the smallest valid timeout
ToFor(lat, mode) == IF mode = 0 THEN 3200 ELSE ToMin(lat)
HopSeq   == <<5, 9, 16>>
MapSeq   == <<FullMap, SparseMap>>
Residues == <<0, 1, 17, 18, 35, 36>>        \* channel index (event index mod 37) of the planned event: small, middle, large
\* the planned event (anchor + latency + 1 intervals) is pulled back to anchor + k intervals:
\* i = 1 by almost everything (k = 1), 2 by half, 3 by one event (k = latency)
PullK(lat, i) == IF i = 1 THEN 1 ELSE IF i = 2 THEN Max(1, (lat + 1) \div 2) ELSE Max(1, lat)
\* new data becomes pending in the middle of the k-th interval after the anchor; then the cancelation is serviced
Pull(lat, i, disarmable) ==
    << <<"notify", 2 * PullK(lat, i) - 1, 2 * (lat + 1)>>, IF disarmable THEN <<"cancel">> ELSE <<"cancel", 0, 0>> >>

RECURSIVE Cat(_, _)
Cat(f, k) == IF k = 0 THEN <<>> ELSE Cat(f, k - 1) \o f[k]

\* the central's event b with (b + lat + 1) % 37 = r is the last one before the latency applies: the planned event has channel index r
GridRound(lat, r, i, disarmable) ==
    << <<"seek", 0, 37, (r + 37 * 14 - lat - 1) % 37, 32>>, Step(0, 0, 1) >> \o Pull(lat, i, disarmable) \o << Step(0, 0, 1) >>

GridRounds(lat) ==
    Cat([j \in 1..19 |-> IF j = 19 THEN GridRound(lat, 0, 1, FALSE)
                         ELSE GridRound(lat, Residues[((j - 1) % 6) + 1], ((((j - 1) % 6) + ((j - 1) \div 6)) % 3) + 1, TRUE)], 19)

\* j-th wrap: the planned event has index 65536 * j + x, x = 0 | lat / 2 | lat; it is pulled back (across the wrap)
WrapX(lat, i) == IF i = 1 THEN 0 ELSE IF i = 2 THEN lat \div 2 ELSE lat
WrapRound(lat, j, rot) ==
    LET x == WrapX(lat, ((j - 1 + rot) % 3) + 1)
        i == (((j - 1) + (rot \div 3)) % 3) + 1
    IN  << <<"seek", 65536 * j - 3 * (lat + 1) - 80, 1, 0, 0>>,
           <<"seek", 65536 * j + x - lat - 1, 1, 0, 32>>, Step(0, 0, 1) >> \o Pull(lat, i, TRUE) \o << Step(0, 0, 1) >>
WrapRounds(lat, rot) == Cat([j \in 1..3 |-> WrapRound(lat, j, rot)], IF lat < 36 THEN 1 ELSE 3)

LatSetup(lat, hop, mp, tm, c) ==
    (IF NCfg > 1 THEN <<<<"latcfg", c>>>> ELSE <<>>)
    \o << Conn(1, 0, IntFor(lat), lat, ToFor(lat, tm), mp, hop, 5, 0), Step(0, 32, 1), <<"q", "cccd", 1>>, Step(0, 32, 1), Step(0, 32, 1), Step(0, 32, 1) >>

LatBoundNext ==
    /\ stage = "init"
    /\ \E kind \in {"grid", "wrap"} : \E lat \in (IF kind = "grid" THEN Lats ELSE WLats), rot \in Rots :
       \E hop \in (IF Small THEN {HopSeq[((lat + rot) % 3) + 1]} ELSE {5, 9, 16}),
          mp  \in (IF Small \/ kind = "wrap" THEN {FullMap} ELSE {FullMap, SparseMap}),
          tm  \in (IF Small \/ kind = "wrap" THEN {(lat + rot) % 2} ELSE {0, 1}),
          c   \in (IF NCfg = 1 THEN {0} ELSE IF Small THEN {IF (lat + rot) % 2 = 0 THEN NCfg - 1 ELSE 1} ELSE 0..(NCfg - 1)) :
            DoAll(LatSetup(lat, hop, mp, tm, c)
                  \o (IF kind = "wrap" THEN WrapRounds(lat, rot) ELSE GridRounds(lat))
                  \o << Step(0, 0, 1), Step(0, 0, 1) >>)
    /\ stage' = "done" /\ n' = n

-----------------------------------------------------------------------------
(* "instant": the three instant procedures at every signed distance *)
IndSet(d) == { <<"q", "upd", d, 3, 5, 40, 1, 200, 1250>>,
               <<"q", "upd", d, 2, 0, 12, 0, 50, 0>>,
               <<"q", "chm", d>> \o OddMap,
               <<"q", "phy", d, 2, 2>> }
IndSmall(d) == { <<"q", "upd", d, 3, 5, 40, 1, 200, 1250>>, <<"q", "chm", d>> \o OddMap, <<"q", "phy", d, 2, 2>> }

InstantNext ==
    \/ /\ stage = "init"
       \* (interval / timeout valid for any latency in Lats: 30 ms / 3 s up to latency 3, see IntFor for larger ones)
       /\ \E lat \in Lats : DoAll(<<Conn(2, 3, IF lat <= 3 THEN 24 ELSE IntFor(lat), lat, IF lat <= 3 THEN 300 ELSE 3200, FullMap, 11, 5, 0),
                                     Step(0, 0, 1), <<"q", "cccd", 1>>, Step(0, 0, 1), Step(0, 0, 1)>>)
       /\ stage' = "pre" /\ n' = 0
    \/ /\ stage = "pre"          \* optional: go near the wrap of the 16 bit event counter first
       /\ \/ UNCHANGED hist /\ n' = 0
          \/ \E k \in Wraps : Do(<<"ff", k>>) /\ n' = Max(0, D - 1)
       /\ stage' = "q"
    \/ /\ stage = "q"
       /\ \E d \in (0 - DMinNeg)..DMax : \E ind \in (IF Small THEN IndSmall(d) ELSE IndSet(d)), probe \in (IF Small THEN {"none", "feat"} ELSE {"none", "feat", "att"}) :
             DoAll(<<ind>> \o (IF probe = "none" THEN <<>> ELSE <<<<"q", probe>>>>) \o <<Step(0, 2, 2)>>)
       /\ stage' = (IF n < D THEN "conn" ELSE "tail")
       /\ n' = n
    \/ /\ stage = "conn" /\ n < D
       /\ \/ \E lost \in {0, 1} : Do(Step(lost, 0, 1))
          \/ DoAll(<<<<"q", "feat">>, Step(0, 2, 1)>>)
          \/ DoAll(<<<<"notify", 1, 4>>, <<"cancel">>, Step(0, 0, 1)>>)
       /\ n' = n + 1 /\ stage' = IF n + 1 = D THEN "tail" ELSE "conn"
    \/ /\ stage = "tail"
       /\ DoAll([i \in 1..(DMax + 2) |-> Step(0, 0, 1)])
       /\ stage' = "done" /\ n' = n

-----------------------------------------------------------------------------
GInit == hist = <<>> /\ stage = "init" /\ n = 0

GNext ==
    \/ Family = "connreq" /\ ConnReqNext
    \/ Family = "superv"  /\ SupervNext
    \/ Family = "update"  /\ UpdateNext
    \/ Family = "latency" /\ LatencyNext
    \/ Family = "instant" /\ InstantNext
    \/ Family = "latbound" /\ LatBoundNext

GSpec == GInit /\ [][GNext]_gvars

\* printed at every leaf; always TRUE
Emit == stage = "done" => PrintT(<<"BEHAVIOUR", ToJson(hist)>>)
=============================================================================
