CONSTANTS OwnSca = 500  Check = {"C21","C22","C23"}
  MaxSteps = 4  Lats = {2}  DsNeg = {}  DsPos = {2}  IndKinds = {"chm"}  Starts = {0}  ConnInt = 6  ConnTo = 100  Cancels = TRUE
SPECIFICATION MCSpec
INVARIANTS TypeOK WindowHit ChannelAgree PhyAgree SkipBound NoJumpOverInstant
CHECK_DEADLOCK FALSE
