CONSTANTS OwnSca = 500  Check = {"C21","C22","C23"}
SPECIFICATION TSpec
INVARIANTS TypeOK
CHECK_DEADLOCK FALSE
