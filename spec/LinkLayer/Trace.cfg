CONSTANTS OwnSca = 500  Check = {"C21","C22","C23"}  Phy2M = TRUE
SPECIFICATION TSpec
INVARIANTS TypeOK
CHECK_DEADLOCK FALSE
