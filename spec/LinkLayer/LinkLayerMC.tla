----------------------------- MODULE LinkLayerMC -----------------------------
(***************************************************************************)
(* Closed design-level model, checked exhaustively by TLC:                 *)
(*   - the MOST GENERAL PERIPHERAL that LinkLayer.tla accepts (it picks    *)
(*     any answer the guards of C21, C22 and C23 allow: how many events to *)
(*     skip, whether to process data while a procedure is pending, whether *)
(*     to refuse an instant at distance 1, ...; windows of minimal width), *)
(*   - a central with an exact clock that transmits at the anchors implied *)
(*     by the parameters it sent, loses events, sends update / channel map *)
(*     / PHY indications with instants at any signed distance (also across*)
(*     the wrap of the 16 bit event counter) and probes while they are     *)
(*     pending.                                                            *)
(* What is checked is that the guards of the property-level spec are       *)
(* strong enough for the purpose they serve: central and peripheral stay   *)
(* in step.  WindowHit: the central's packet of the event the peripheral   *)
(* believes to listen to lies in the scheduled window; ChannelAgree /      *)
(* PhyAgree / IntervalAgree: both sides use the same channel, PHY and      *)
(* interval for it (instants take effect on both sides in the same event); *)
(* PastInstantEndsLink; Skip / starvation bounds.  Every guard of          *)
(* LinkLayer.tla is exercised (the peripheral offers also answers that the *)
(* guards reject; see the coverage of the disjuncts).                      *)
(***************************************************************************)
EXTENDS LinkLayer, TLC

CONSTANTS MaxSteps,     \* connection events (listened) per behaviour
          Lats,         \* peripheral latencies of the connection
          DsNeg, DsPos, \* signed distances of instants from the event of reception: -DsNeg and DsPos (no negative literals in cfg files)
          IndKinds,     \* subset of {"upd", "chm", "phy"}
          Starts,       \* event index jumps before the procedure (0 = none; 65527 = go near the counter wrap)
          ConnInt, ConnTo,      \* interval [1.25 ms], supervision timeout [10 ms] of the connection
          Cancels       \* BOOLEAN: pulled back events

VARIABLES t0,       \* absolute time of the radio's anchor T0
          cN, cA,   \* the central's next event: index and absolute anchor time
          cPar,     \* [int, map, phy] the central uses for event cN
          cPend,    \* change the central will make at event cPend.at (NoProc-like record) or kind "none"
          cq,       \* PDUs the central still has to deliver (LinkLayer.rxq entries)
          och, ophy,\* channel and PHY of the armed event
          steps, sent, ended

mvars == <<vars, t0, cN, cA, cPar, cPend, cq, och, ophy, steps, sent, ended>>

Ds == { 0 - x : x \in DsNeg } \cup DsPos

NewMap == { c \in 0..36 : c % 2 = 1 }
FullSet == 0..36
Hop == 7

NoPend == [kind |-> "none", at |-> 0, int |-> 0, off |-> 0, map |-> {}, phy |-> <<1, 1>>]

(* central's parameters / anchor for a future event m >= cN *)
CInt(m)  == IF cPend.kind = "upd" /\ m >= cPend.at THEN cPend.int ELSE cPar.int
CMap(m)  == IF cPend.kind = "chm" /\ m >= cPend.at THEN cPend.map ELSE cPar.map
CPhy(m)  == IF cPend.kind = "phy" /\ m >= cPend.at THEN cPend.phy ELSE cPar.phy
CAnchor(m) == IF cPend.kind = "upd" /\ m >= cPend.at
              THEN cA + (cPend.at - cN) * cPar.int * U + cPend.off + (m - cPend.at) * cPend.int * U
              ELSE cA + (m - cN) * cPar.int * U

(* the central after it has advanced to event m >= cN *)
CentralAt(m) == [N |-> m, A |-> CAnchor(m),
                 par |-> [int |-> CInt(m), map |-> CMap(m), phy |-> CPhy(m)],
                 pend |-> IF cPend.kind # "none" /\ m >= cPend.at THEN NoPend ELSE cPend]

(* minimal half width that satisfies Need *)
MinW(S, t) == Max(0, ((S.par.sca * (t \div U) + Q - 1) \div Q) - 1)

(* the answer "schedule event m" with the minimal window, the right channel and PHY *)
MkO(S, m, curphy, radiophy, cbs) ==
    LET nw  == WinAt(S, m) = NoWin
        np  == PhyAt(S, m, curphy)
    IN  [k   |-> "sched",
         ch  |-> CSA1(MapAt(S, m), S.par.hop, m),
         s   |-> IF nw THEN NomT(S, m) - MinW(S, NomT(S, m)) ELSE Lo(S, m) - MinW(S, Lo(S, m)),
         e   |-> IF nw THEN NomT(S, m) + MinW(S, NomT(S, m)) ELSE Hi(S, m) + MinW(S, Hi(S, m)),
         ci  |-> IntAt(S, m) * U,
         phy |-> IF np = radiophy THEN <<>> ELSE <<np>>, phyafter |-> 0,
         cb  |-> cbs, disok |-> FALSE]

EndO(reason, cbs) == [k |-> "adv", ch |-> -1, s |-> 0, e |-> 0, ci |-> 0, phy |-> <<<<1, 1>>>>, phyafter |-> 0,
                      cb |-> Append(cbs, [c |-> "closed", a |-> reason]), disok |-> FALSE]

CbSeq(kinds) == [i \in 1..Len(kinds) |-> [c |-> kinds[i], a |-> 0]]

Entry(k, inst) ==
    [k |-> k, inst |-> inst, int |-> IF k = "upd" THEN ConnInt + 2 ELSE 0, lat |-> 0, to |-> IF k = "upd" THEN ConnTo ELSE 0,
     off |-> IF k = "upd" THEN 2 * U ELSE 0, size |-> IF k = "upd" THEN U ELSE 0,
     map |-> IF k = "chm" THEN NewMap ELSE {}, prx |-> IF k = "phy" THEN 2 ELSE 0, ptx |-> IF k = "phy" THEN 2 ELSE 0]

-----------------------------------------------------------------------------
MCInit ==
    /\ phase = "adv" /\ conn = NoConn /\ sched = NoSched /\ rxq = <<>> /\ phy = <<1, 1>> /\ rphy = <<1, 1>>
    /\ cfgs = <<{"rxne"}>> /\ cfg = {"rxne"}          \* latency configuration: listen if the last received PDU was not empty
    /\ t0 = 0 /\ cN = 0 /\ cA = 0 /\ cPar = [int |-> ConnInt, map |-> FullSet, phy |-> <<1, 1>>] /\ cPend = NoPend
    /\ cq = <<>> /\ och = -1 /\ ophy = <<1, 1>> /\ steps = 0 /\ sent = 0 /\ ended = FALSE

(* connect request: T0 = end of CONNECT_IND = 0; central's first anchor in the transmit window *)
Connect ==
    /\ phase = "adv" /\ steps = 0 /\ ~ended
    /\ \E lat \in Lats, x0 \in {0, U} :
         LET p == [ws |-> 1, wo |-> 2, int |-> ConnInt, lat |-> lat, to |-> ConnTo, map |-> FullSet, hop |-> Hop, scac |-> 0]
             S == [par |-> [int |-> p.int, lat |-> p.lat, to |-> p.to, map |-> p.map, hop |-> p.hop, sca |-> ScaTable[1] + OwnSca],
                   ref |-> [evt |-> 0, t |-> 0], win |-> [off |-> (p.wo + 1) * U, size |-> p.ws * U],
                   last |-> -1, est |-> FALSE, proc |-> NoProc, had |-> FALSE]
             o == MkO(S, 0, <<1, 1>>, <<1, 1>>, <<>>)
         IN  /\ ConnReq(p, o)
             /\ cA' = (p.wo + 1) * U + x0 /\ och' = o.ch /\ ophy' = <<1, 1>>
    /\ UNCHANGED <<t0, cN, cPar, cPend, cq, steps, sent, ended>>

(* the central queues an indication (instant relative to the event in which it will be sent first = cN of the *)
(* next round, because the queue is empty) or a probe                                                        *)
Queue ==
    /\ phase = "conn" /\ conn.est /\ ~ended /\ Len(cq) < 2
    /\ \/ /\ sent = 0 /\ cq = <<>>
          /\ \E k \in IndKinds, d \in Ds : cq' = <<[Entry(k, 0) EXCEPT !.inst = d]>>      \* inst holds d until sent
          /\ sent' = 1
       \/ /\ sent >= 1 /\ sent < 3
          /\ cq' = Append(cq, Entry("feat", 0))
          /\ sent' = sent + 1
    /\ UNCHANGED <<vars, t0, cN, cA, cPar, cPend, och, ophy, steps, ended>>

(* go near the wrap of the event counter: uneventful events on both sides *)
Jump ==
    /\ phase = "conn" /\ conn.est /\ ~ended /\ sent = 0 /\ steps = 1 /\ conn.last < 60000
    /\ \E j \in Starts \ {0} :
         LET m  == conn.ref.evt + j
             S  == [conn EXCEPT !.last = m, !.ref = [evt |-> m, t |-> 0]]
         IN  \E k \in 1..(conn.par.lat + 1) :
               LET o == MkO(S, m + k, phy, rphy, <<>>)
               IN  /\ FastForward(j, o)
                   /\ t0' = t0 + j * conn.par.int * U
                   /\ cN' = m + 1 /\ cA' = t0' + cPar.int * U
                   /\ och' = o.ch /\ ophy' = RadioPhy(o, rphy)
    /\ UNCHANGED <<cPar, cPend, cq, steps, sent, ended>>

(* One connection event the peripheral listens to. *)
Round ==
    /\ phase = "conn" /\ sched.evt >= 0 /\ ~ended /\ steps < MaxSteps
    /\ LET m  == sched.evt
           C  == CentralAt(m)                    \* the central at the event the peripheral listens to
           hit == C.A >= t0 + sched.s /\ C.A <= t0 + sched.e
       IN  \E lost \in BOOLEAN :
             IF lost \/ ~hit
             THEN \* timeout(): continue with some allowed event, or give up
                  \E k \in 1..(conn.par.lat + 1), close \in BOOLEAN :
                    LET S == TookTimeout(conn, m)
                        o == IF close THEN EndO(SupervisionTimeout, <<>>) ELSE MkO(S, m + k, PhyAfter(conn, m, phy), rphy, <<>>)
                    IN  /\ Timeout(sched.e, o)
                        /\ och' = o.ch /\ ophy' = RadioPhy(o, rphy)
                        /\ ended' = close
                        /\ UNCHANGED <<t0, cq, sent>>
                        /\ LET C1 == CentralAt(m + 1) IN cN' = C1.N /\ cA' = C1.A /\ cPar' = C1.par /\ cPend' = C1.pend
             ELSE \* end_event(): the head of the central's queue is delivered
                  LET dt   == C.A - t0
                      head == IF cq = <<>> THEN <<>>
                              ELSE IF cq[1].k \in {"upd", "chm", "phy"}
                                   THEN <<[cq[1] EXCEPT !.inst = (m + cq[1].inst + CtrMod) % CtrMod]>>
                                   ELSE <<cq[1]>>
                      q    == rxq \o head
                      S0   == TookAnchor(conn, m)
                  IN  \E ncb \in 0..Min(LeadLen(q) + 1, 2), r28 \in BOOLEAN, k \in 1..(conn.par.lat + 1), rxne \in BOOLEAN :
                        LET probes == SelectSeq(q, IsProbe)
                            cbs == CbSeq(Kinds(SubSeq(probes, 1, Min(ncb, Len(probes)))))
                            P   == Process(S0, q, m, ProbeCbs([cb |-> cbs]), r28)
                            o   == IF r28 THEN EndO(InstantPassed, cbs) ELSE MkO(P.S, m + k, PhyAfter(conn, m, phy), rphy, cbs)
                            f   == [unack |-> FALSE, rxne |-> rxne, txne |-> FALSE, md |-> FALSE, pend |-> FALSE, err |-> FALSE]
                            \* the central makes its own change at the instant it sent (distance >= 1); x = window size
                            cp  == IF head # <<>> /\ head[1].k \in {"upd", "chm", "phy"} /\ cq[1].inst >= 1
                                   THEN [kind |-> head[1].k, at |-> m + cq[1].inst, int |-> head[1].int, off |-> head[1].off + head[1].size,
                                         map |-> head[1].map, phy |-> <<head[1].prx, head[1].ptx>>]
                                   ELSE C.pend
                            now1 == cp.kind # "none" /\ cp.at <= m + 1
                        IN  /\ EndEvent(dt, f, FALSE, head, o)
                            /\ t0' = C.A
                            /\ och' = o.ch /\ ophy' = RadioPhy(o, rphy)
                            /\ ended' = r28
                            /\ cq' = IF cq = <<>> THEN cq ELSE Tail(cq)
                            /\ cN' = m + 1
                            /\ cPar' = IF ~now1 THEN C.par
                                       ELSE IF cp.kind = "upd" THEN [C.par EXCEPT !.int = cp.int]
                                       ELSE IF cp.kind = "chm" THEN [C.par EXCEPT !.map = cp.map]
                                       ELSE [C.par EXCEPT !.phy = cp.phy]
                            /\ cPend' = IF now1 THEN NoPend ELSE cp
                            /\ cA' = C.A + C.par.int * U + (IF now1 /\ cp.kind = "upd" THEN cp.off ELSE 0)
                            /\ UNCHANGED sent
    /\ steps' = steps + 1

(* the application makes data pending: the armed event may be pulled back *)
PullBack ==
    /\ Cancels /\ phase = "conn" /\ conn.est /\ ~ended /\ sched.evt > conn.last + 1
    /\ \E n \in (conn.last + 1)..(sched.evt - 1) :
         LET o == MkO(conn, n, phy, rphy, <<>>)
         IN  /\ Cancel(o)
             /\ och' = o.ch /\ ophy' = RadioPhy(o, rphy)
    /\ UNCHANGED <<t0, cN, cA, cPar, cPend, cq, steps, sent, ended>>

MCNext == Connect \/ Queue \/ Jump \/ Round \/ PullBack

MCSpec == MCInit /\ [][MCNext]_mvars

-----------------------------------------------------------------------------
(* design-level theorems *)
Armed == phase = "conn" /\ sched.evt >= 0 /\ ~ended

\* the central has not passed the event the peripheral waits for, and its packet lies in the window
WindowHit == Armed => /\ cN <= sched.evt
                      /\ CAnchor(sched.evt) >= t0 + sched.s /\ CAnchor(sched.evt) <= t0 + sched.e

ChannelAgree == Armed => och = CSA1(CMap(sched.evt), Hop, sched.evt)
PhyAgree     == Armed => ophy = CPhy(sched.evt)

\* SkipBound and LatencyRespectsInstant as state invariants
SkipBound    == Armed => sched.evt - conn.last <= MaxLat(conn) + 1
NoJumpOverInstant == Armed /\ conn.proc.kind # "none" /\ conn.last < conn.proc.mI => sched.evt <= conn.proc.mI

=============================================================================
