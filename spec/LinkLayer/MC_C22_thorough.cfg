CONSTANTS OwnSca = 500  Check = {"C21","C22","C23"}
  MaxSteps = 9  Lats = {0, 1, 2}  DsNeg = {}  DsPos = {2, 4}  IndKinds = {"upd"}  Starts = {0}  ConnInt = 16  ConnTo = 10  Cancels = FALSE
SPECIFICATION MCSpec
INVARIANTS TypeOK WindowHit ChannelAgree PhyAgree SkipBound NoJumpOverInstant
CHECK_DEADLOCK FALSE
