CONSTANTS OwnSca = 500  Check = {"C21","C22","C23"}
  MaxSteps = 5  Lats = {0, 3}  DsNeg = {1, 3}  DsPos = {0, 1, 2, 3, 8}  IndKinds = {"upd", "chm", "phy"}  Starts = {0, 65527}  ConnInt = 6  ConnTo = 100  Cancels = FALSE
SPECIFICATION MCSpec
INVARIANTS TypeOK WindowHit ChannelAgree PhyAgree SkipBound NoJumpOverInstant
CHECK_DEADLOCK FALSE
