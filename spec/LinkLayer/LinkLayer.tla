------------------------------ MODULE LinkLayer ------------------------------
(***************************************************************************)
(* Property-level specification of the link layer connection state machine *)
(* as seen at the scheduled-radio interface (C21, C22, C23).               *)
(*                                                                         *)
(* One action per radio callback / API call of the real class.  Every      *)
(* action takes what the environment did (connect request, lost event,     *)
(* received PDUs, flags of the radio) AND what the link layer answered     *)
(* (`o`: the connection event it scheduled at the radio, or the end of     *)
(* the link with the reported reason, PHY calls, application callbacks).   *)
(* The guards state what the properties demand of that answer; wherever    *)
(* the properties leave freedom (how many events to skip below the         *)
(* latency, how much wider than necessary a window is, whether data is     *)
(* processed while a procedure is pending) the guard is a constraint, not  *)
(* an equation.                                                            *)
(*                                                                         *)
(* Times are integer microseconds relative to the radio's anchor T0        *)
(* (scheduled_radio concept: T0 = reception time of the first PDU of the   *)
(* last connection event in which something was received; after a connect  *)
(* request T0 = the end of the CONNECT_IND).  Event indices count the      *)
(* connection events since the connect request without wrapping; the       *)
(* 16-bit connEventCounter is index mod 65536.  The index of a scheduled   *)
(* event is DERIVED FROM ITS TIME (never taken from the implementation).   *)
(***************************************************************************)
EXTENDS Integers, Sequences, FiniteSets

CONSTANTS OwnSca,   \* sleep clock accuracy of the peripheral [ppm] (link layer option sleep_clock_accuracy_ppm)
          Check     \* subset of {"C21", "C22", "C23"}: the properties enforced by the guards

U  == 1250          \* us per unit of interval / window offset / window size
TU == 10000         \* us per unit of supervision timeout
Q  == 800           \* 10^6 / U   (ppm arithmetic without 32 bit overflow: times are multiples of U)
CtrMod == 65536
InstantPassed == 40         \* 0x28
SupervisionTimeout == 8     \* 0x08

ScaTable == <<500, 250, 150, 100, 75, 50, 30, 20>>      \* central SCA field -> ppm (Core Vol 6 Part B 2.3.3.1)

Min(a, b) == IF a < b THEN a ELSE b
Max(a, b) == IF a > b THEN a ELSE b
Abs(a)    == IF a < 0 THEN -a ELSE a

-----------------------------------------------------------------------------
(* Core specification limits of the timing parameters of a CONNECT_IND      *)
(* (Vol 6 Part B 2.3.3.1, 4.5.1, 4.5.2):                                    *)
(*   interval 7.5 ms .. 4 s; latency <= 499; timeout 100 ms .. 32 s and     *)
(*   LARGER than (1 + latency) * interval * 2; window size 1.25 ms ..       *)
(*   min(10 ms, interval - 1.25 ms); window offset 0 .. interval;           *)
(*   hop 5 .. 16; at least 2 used data channels.                            *)
(* p = [ws, wo, int, lat, to, map (set of channels), hop, scac]            *)
ValidConn(p) ==
    /\ p.int \in 6..3200
    /\ p.lat \in 0..499
    /\ p.to \in 10..3200
    /\ p.to * 4 > (1 + p.lat) * p.int               \* to*10ms > (1+lat)*int*1.25ms*2
    /\ p.ws >= 1 /\ p.ws <= 8 /\ p.ws <= p.int - 1
    /\ p.wo >= 0 /\ p.wo <= p.int
    /\ p.hop \in 5..16
    /\ Cardinality(p.map) >= 2

(* Channel selection algorithm #1 for the event with index m *)
NthUsed(map, i) == CHOOSE c \in map : Cardinality({d \in map : d < c}) = i
CSA1(map, hop, m) ==
    LET u == (hop * ((m + 1) % 37)) % 37
    IN  IF u \in map THEN u ELSE NthUsed(map, u % Cardinality(map))

(* signed distance of a 16 bit instant from the counter of event m: -32768 .. 32767 *)
SDist(inst, m) ==
    LET d == (inst - (m % CtrMod) + CtrMod) % CtrMod
    IN  IF d >= 32768 THEN d - CtrMod ELSE d

-----------------------------------------------------------------------------
(* The connection as the properties see it: a record S                      *)
(*   par  = [int, lat, to, map, hop, sca]  parameters in force              *)
(*   ref  = [evt, t]   event index `evt` has the nominal time t (rel. T0)   *)
(*   win  = [off, size] transmit window (us) that applies until a packet    *)
(*          is received (after connect request / connection update)         *)
(*   last = index of the last event that took place (-1: none yet)          *)
(*   est  = a packet was received on this connection                        *)
(*   proc = accepted instant procedure that has not taken effect yet        *)
(*   had  = an instant procedure was accepted on this connection           *)
NoWin  == [off |-> 0, size |-> 0]
NoProc == [kind |-> "none", mI |-> 0, int |-> 0, lat |-> 0, to |-> 0, off |-> 0, size |-> 0, map |-> {}, prx |-> 0, ptx |-> 0]

NewTiming(S, m) == S.proc.kind = "upd" /\ m >= S.proc.mI
IntAt(S, m) == IF NewTiming(S, m) THEN S.proc.int ELSE S.par.int
LatAt(S, m) == IF NewTiming(S, m) THEN S.proc.lat ELSE S.par.lat
ToAt(S, m)  == IF NewTiming(S, m) THEN S.proc.to  ELSE S.par.to
MapAt(S, m) == IF S.proc.kind = "chm" /\ m >= S.proc.mI THEN S.proc.map ELSE S.par.map
WinAt(S, m) == IF NewTiming(S, m) THEN [off |-> S.proc.off, size |-> S.proc.size] ELSE S.win

(* nominal time of event m relative to T0 (without transmit window offset) *)
NomT(S, m) ==
    IF NewTiming(S, m)
    THEN S.ref.t + (S.proc.mI - S.ref.evt) * S.par.int * U + (m - S.proc.mI) * S.proc.int * U
    ELSE S.ref.t + (m - S.ref.evt) * S.par.int * U
Lo(S, m) == NomT(S, m) + WinAt(S, m).off
Hi(S, m) == Lo(S, m) + WinAt(S, m).size

MinInt(S) == IF S.proc.kind = "upd" THEN Min(S.par.int, S.proc.int) ELSE S.par.int
MaxLat(S) == IF S.proc.kind = "upd" THEN Max(S.par.lat, S.proc.lat) ELSE S.par.lat

(* Which event is the scheduled window [o.s, o.e] meant for?  The one whose expected centre is *)
(* nearest (closer than half an interval).  Derived from time only.                            *)
(* (evaluation only: on an established connection without transmit window and without pending   *)
(* update the expected centre of event m is ref.t + (m - ref.evt) * interval, so only the events  *)
(* next to (centre - ref.t) / interval can satisfy the condition - the same set, without         *)
(* enumerating latency + 3 candidates)                                                            *)
CandRange(S, o) ==
    IF S.win = NoWin /\ S.proc.kind # "upd" /\ S.par.int > 0
    THEN LET m0 == S.ref.evt + (((o.s + o.e) \div 2) - S.ref.t) \div (S.par.int * U)
         IN  Max(S.last + 1, m0 - 2)..Min(S.last + MaxLat(S) + 3, m0 + 3)
    ELSE (S.last + 1)..(S.last + MaxLat(S) + 3)
Cand(S, o) ==
    { m \in CandRange(S, o) :
        Abs((o.s + o.e) - (Lo(S, m) + Hi(S, m))) < MinInt(S) * U }

(* Widening: a half width w is enough for an elapsed time t (multiple of U) if            *)
(*   w >= sca * t / 10^6 - 1us   (1 us tolerance for the fixed point delta_time::ppm)     *)
Need(S, w, t) == (w + 1) * Q >= S.par.sca * (t \div U)

(* C22 Anchoring + Widening *)
TimingOK(S, m, o) ==
    IF WinAt(S, m) = NoWin
    THEN /\ o.s + o.e = 2 * NomT(S, m)                      \* centre = last anchor + n * interval
         /\ Need(S, (o.e - o.s) \div 2, NomT(S, m))
    ELSE /\ Need(S, Lo(S, m) - o.s, Lo(S, m))               \* covers the widened transmit window
         /\ Need(S, o.e - Hi(S, m), Hi(S, m))

(* C23 CounterAndChannelInStep *)
ChannelOK(S, m, o) == o.ch = CSA1(MapAt(S, m), S.par.hop, m)

(* the PHY the radio has to be in for event m *)
PhyAt(S, m, cur) == IF S.proc.kind = "phy" /\ m >= S.proc.mI THEN <<S.proc.prx, S.proc.ptx>> ELSE cur
RadioPhy(o, cur) == IF o.phy = <<>> THEN cur ELSE o.phy[Len(o.phy)]

(* What every scheduled connection event has to satisfy.  must: a listen condition held. *)
SchedGuards(S, m, o, must, curphy, radiophy) ==
    /\ "C22" \in Check => TimingOK(S, m, o)
    /\ "C23" \in Check =>
            /\ m - S.last <= S.par.lat + 1                      \* SkipBound
            /\ must => m = S.last + 1                           \* ListenWhenRequired
            /\ ChannelOK(S, m, o)                               \* CounterAndChannelInStep
    /\ "C21" \in Check =>
            /\ S.had =>                                               \* old parameters before, new from the instant on
                    /\ TimingOK(S, m, o) /\ o.ci = IntAt(S, m) * U
                    /\ ChannelOK(S, m, o)
            /\ S.proc.kind # "none" => m <= S.proc.mI                \* latency never skips the instant
            /\ RadioPhy(o, radiophy) = PhyAt(S, m, curphy) /\ o.phyafter = 0

(* an event with index >= instant took place: the procedure has taken effect *)
Commit(S, m) ==
    IF S.proc.kind = "none" \/ m < S.proc.mI THEN S
    ELSE IF S.proc.kind = "upd"
         THEN [S EXCEPT !.par = [S.par EXCEPT !.int = S.proc.int, !.lat = S.proc.lat, !.to = S.proc.to],
                        !.ref = [evt |-> S.proc.mI, t |-> NomT(S, S.proc.mI)],
                        !.win = [off |-> S.proc.off, size |-> S.proc.size],
                        !.proc = NoProc]
         ELSE IF S.proc.kind = "chm"
              THEN [S EXCEPT !.par = [S.par EXCEPT !.map = S.proc.map], !.proc = NoProc]
              ELSE [S EXCEPT !.proc = NoProc]

TookTimeout(S, m) == [Commit(S, m) EXCEPT !.last = m]
TookAnchor(S, m)  == [Commit(S, m) EXCEPT !.last = m, !.ref = [evt |-> m, t |-> 0], !.win = NoWin, !.est = TRUE]

-----------------------------------------------------------------------------
VARIABLES phase,    \* "adv" (no connection) | "conn" (connecting or connected)
          conn,     \* the record S above
          sched,    \* [evt, s, e]: the connection event armed at the radio
          rxq,      \* received PDUs the link layer has not processed yet (only the kinds the properties talk about)
          phy,      \* <<rx, tx>> PHY in force for the events that took place (changes when the instant's event takes place)
          rphy,     \* <<rx, tx>> PHY the radio was told to use last
          cfgs,     \* the latency configurations of the link layer type (sequence of sets of listen conditions)
          cfg       \* the active one

vars == <<phase, conn, sched, rxq, phy, rphy, cfgs, cfg>>

NoConn  == [par |-> [int |-> 0, lat |-> 0, to |-> 0, map |-> {}, hop |-> 0, sca |-> 0], ref |-> [evt |-> 0, t |-> 0],
            win |-> NoWin, last |-> -1, est |-> FALSE, proc |-> NoProc, had |-> FALSE]
NoSched == [evt |-> -1, s |-> 0, e |-> 0]

Init == phase = "adv" /\ conn = NoConn /\ sched = NoSched /\ rxq = <<>> /\ phy = <<1, 1>> /\ rphy = <<1, 1>> /\ cfgs = <<{}>> /\ cfg = {}

ToAdv == phase' = "adv" /\ conn' = NoConn /\ sched' = NoSched /\ rxq' = <<>> /\ phy' = <<1, 1>> /\ rphy' = <<1, 1>>

(* PHY in force once event m took place *)
PhyAfter(S, m, cur) == IF S.proc.kind = "phy" /\ m >= S.proc.mI THEN <<S.proc.prx, S.proc.ptx>> ELSE cur

ClosedReasons(o) == { o.cb[i].a : i \in { j \in 1..Len(o.cb) : o.cb[j].c = "closed" } }
HasCb(o, name)   == \E i \in 1..Len(o.cb) : o.cb[i].c = name

-----------------------------------------------------------------------------
(* CONNECT_IND received while advertising.  C22 ValidParametersOnly: only valid timing      *)
(* parameters produce a connection; the first event is scheduled in the transmit window.    *)
ConnReq(p, o) ==
    /\ phase = "adv"
    /\ o.k \in {"sched", "adv", "none"}
    /\ IF o.k = "sched"
       THEN LET S == [par |-> [int |-> p.int, lat |-> p.lat, to |-> p.to, map |-> p.map, hop |-> p.hop,
                               sca |-> ScaTable[p.scac + 1] + OwnSca],
                      ref |-> [evt |-> 0, t |-> 0], win |-> [off |-> (p.wo + 1) * U, size |-> p.ws * U],
                      last |-> -1, est |-> FALSE, proc |-> NoProc, had |-> FALSE]
            IN  /\ "C22" \in Check => ValidConn(p)
                /\ \E m \in Cand(S, o) :
                        /\ SchedGuards(S, m, o, TRUE, <<1, 1>>, <<1, 1>>)
                        /\ sched' = [evt |-> m, s |-> o.s, e |-> o.e]
                /\ phase' = "conn" /\ conn' = S /\ rxq' = <<>> /\ phy' = <<1, 1>> /\ rphy' = RadioPhy(o, <<1, 1>>)
       ELSE UNCHANGED <<phase, conn, sched, rxq, phy, rphy>>
    /\ UNCHANGED <<cfgs, cfg>>

(* No valid packet in the scheduled window (timeout() at time `now` relative to T0).         *)
(* C22 Supervision: the link is given up for timeout only when no packet was received for    *)
(* the supervision timeout (connecting: when the next opportunity would start after 6        *)
(* intervals - or the supervision timeout has elapsed, which the property statement permits  *)
(* although the Core spec uses only the 6 interval rule there), and it is not kept much      *)
(* longer (one interval of slack).                                                           *)
Timeout(now, o) ==
    /\ phase = "conn" /\ sched.evt >= 0
    /\ o.k \in {"sched", "adv"}
    /\ LET m == sched.evt
           S == TookTimeout(conn, m)
       IN  IF o.k = "adv"
           THEN /\ "C22" \in Check =>
                        IF conn.est
                        THEN SupervisionTimeout \in ClosedReasons(o) => now >= ToAt(conn, m) * TU
                        ELSE HasCb(o, "attempt_timeout") =>
                                \/ NomT(conn, m + 1) + conn.win.off >= 6 * conn.par.int * U
                                \/ now >= ToAt(conn, m) * TU    \* (the supervision timeout itself has elapsed: tolerated)
                /\ ToAdv
           ELSE /\ "C22" \in Check =>
                        IF conn.est THEN NomT(conn, m) < ToAt(conn, m) * TU + IntAt(conn, m) * U
                                    ELSE m < 5
                /\ \E n \in Cand(S, o) :
                        /\ SchedGuards(S, n, o, FALSE, PhyAfter(conn, m, phy), rphy)
                        /\ sched' = [evt |-> n, s |-> o.s, e |-> o.e]
                /\ conn' = S /\ phy' = PhyAfter(conn, m, phy) /\ rphy' = RadioPhy(o, rphy)
                /\ UNCHANGED <<phase, rxq>>
    /\ UNCHANGED <<cfgs, cfg>>

-----------------------------------------------------------------------------
(* Received PDUs the properties talk about: q entries                                        *)
(*   [k |-> "upd"|"chm"|"phy" (indications with an instant) | "feat"|"att" (probes whose      *)
(*    processing is visible as an application callback), inst, int, lat, to, off, size, map,  *)
(*    prx, ptx]                                                                               *)
IsProbe(x) == x.k \in {"feat", "att"}
ProbeCb(x) == IF x.k = "feat" THEN "features" ELSE "att_read"

RECURSIVE LeadLen(_)
LeadLen(q) == IF q = <<>> \/ ~IsProbe(Head(q)) THEN 0 ELSE 1 + LeadLen(Tail(q))

Kinds(q) == [i \in 1..Len(q) |-> ProbeCb(q[i])]
IsPrefix(a, b) == Len(a) <= Len(b) /\ \A i \in 1..Len(a) : a[i] = b[i]
Drop(q, n) == SubSeq(q, n + 1, Len(q))

MkProc(x, mI) == [kind |-> x.k, mI |-> mI, int |-> x.int, lat |-> x.lat, to |-> x.to, off |-> x.off, size |-> x.size,
                  map |-> x.map, prx |-> x.prx, ptx |-> x.ptx]

(* C21: what has to happen to the queue q at the end of event m.  cbs = the probe callbacks    *)
(* delivered (in order), r28 = the link ended with reason Instant Passed.                       *)
(* Result: [ok, q, S, ended]                                                                    *)
(*  - while a procedure is pending and its instant is after m the queue MAY stay unprocessed    *)
(*  - otherwise everything up to the next indication MUST be processed now (NoStarvation), and  *)
(*    the indication is decided: signed distance d of its instant from m                        *)
(*       d <= 0  the link MUST end with 0x28;   d = 1  either (deliberate tolerance);           *)
(*       d >= 2  it MUST be accepted and takes effect exactly at event m + d                    *)
Process(S, q, m, cbs, r28) ==
    LET blocked == S.proc.kind # "none" /\ S.proc.mI > m
        n1      == LeadLen(q)
    IN  IF blocked
        THEN [ok |-> IsPrefix(cbs, Kinds(SubSeq(q, 1, n1))) /\ ~r28, q |-> Drop(q, Min(Len(cbs), n1)), S |-> S, ended |-> r28]
        ELSE IF n1 = Len(q)
             THEN [ok |-> cbs = Kinds(q) /\ ~r28, q |-> <<>>, S |-> S, ended |-> r28]
             ELSE LET ind  == q[n1 + 1]
                      d    == SDist(ind.inst, m)
                      rest == Drop(q, n1 + 1)
                      n2   == LeadLen(rest)
                      more == Drop(cbs, Min(Len(cbs), n1))
                  IN  IF r28
                      THEN [ok |-> IsPrefix(Kinds(SubSeq(q, 1, n1)), cbs) /\ d <= 1, q |-> <<>>, S |-> S, ended |-> TRUE]
                      ELSE [ok |-> /\ IsPrefix(Kinds(SubSeq(q, 1, n1)), cbs)
                                   /\ IsPrefix(more, Kinds(SubSeq(rest, 1, n2)))
                                   /\ d >= 1,
                            q  |-> Drop(rest, Min(Len(more), n2)),
                            S  |-> IF d >= 1 THEN [S EXCEPT !.proc = MkProc(ind, m + d), !.had = TRUE] ELSE S,
                            ended |-> FALSE]

ProbeCbs(o) == LET idx == { i \in 1..Len(o.cb) : o.cb[i].c \in {"features", "att_read"} }
                   F[n \in 0..Len(o.cb)] == IF n = 0 THEN <<>> ELSE IF n \in idx THEN Append(F[n - 1], o.cb[n].c) ELSE F[n - 1]
               IN  F[Len(o.cb)]

(* listen conditions of peripheral_latency.hpp; f = flags given by the radio, pend0 = data  *)
(* was pending in the transmit buffer when the event ended                                    *)
MustListen(f, pend0) ==
    \/ f.err \/ "always" \in cfg
    \/ ("unack" \in cfg /\ f.unack) \/ ("rxne" \in cfg /\ f.rxne) \/ ("txne" \in cfg /\ f.txne)
    \/ ("md" \in cfg /\ f.md) \/ ("pend" \in cfg /\ (f.pend \/ pend0))

(* A connection event in which the central was received, first PDU at dt (relative to the    *)
(* old T0), rx = the new PDUs of interest accepted by the link layer's receive buffer.       *)
EndEvent(dt, f, pend0, rx, o) ==
    /\ phase = "conn" /\ sched.evt >= 0
    /\ dt >= sched.s /\ dt <= sched.e                   \* environment: the packet was in the window
    /\ o.k \in {"sched", "adv"}
    /\ LET m   == sched.evt
           S0  == TookAnchor(conn, m)
           r28 == o.k = "adv" /\ InstantPassed \in ClosedReasons(o)
           P   == Process(S0, rxq \o rx, m, ProbeCbs(o), r28)
       IN  /\ "C21" \in Check => P.ok /\ (o.k = "adv" => r28)
           /\ "C22" \in Check => ~(o.k = "adv" /\ SupervisionTimeout \in ClosedReasons(o))
           /\ IF o.k = "adv"
              THEN ToAdv
              ELSE /\ \E n \in Cand(P.S, o) :
                          /\ SchedGuards(P.S, n, o, MustListen(f, pend0), PhyAfter(conn, m, phy), rphy)
                          /\ sched' = [evt |-> n, s |-> o.s, e |-> o.e]
                   /\ conn' = P.S /\ rxq' = P.q /\ phy' = PhyAfter(conn, m, phy) /\ rphy' = RadioPhy(o, rphy)
                   /\ UNCHANGED phase
    /\ UNCHANGED <<cfgs, cfg>>

(* try_event_cancelation(): the armed event may be replaced by an earlier one (new data       *)
(* became pending).  The replacement is judged like any scheduled event; it must not be later *)
(* than the one it replaces.                                                                  *)
Cancel(o) ==
    /\ phase = "conn" /\ sched.evt >= 0
    /\ o.k \in {"sched", "none"}
    /\ IF o.k = "sched"
       THEN /\ \E n \in Cand(conn, o) :
                    /\ SchedGuards(conn, n, o, FALSE, phy, rphy)
                    /\ "C23" \in Check => n <= sched.evt
                    /\ sched' = [evt |-> n, s |-> o.s, e |-> o.e]
            /\ rphy' = RadioPhy(o, rphy)
       ELSE /\ "C23" \in Check => ~o.disok                \* a disarmed radio must be armed again
            /\ UNCHANGED <<sched, rphy>>
    /\ UNCHANGED <<phase, conn, rxq, phy, cfgs, cfg>>

(* n uneventful connection events (empty PDUs, no flags) in which the anchor advanced by      *)
(* ivals intervals in total; only the event scheduled at the end is judged.                   *)
FastForward(ivals, o) ==
    /\ phase = "conn" /\ sched.evt >= 0 /\ conn.est /\ conn.proc = NoProc /\ conn.win = NoWin
    /\ o.k = "sched"
    /\ LET m == conn.ref.evt + ivals
           S == [conn EXCEPT !.last = m, !.ref = [evt |-> m, t |-> 0]]
       IN  /\ \E n \in Cand(S, o) :
                  /\ SchedGuards(S, n, o, FALSE, phy, rphy)
                  /\ sched' = [evt |-> n, s |-> o.s, e |-> o.e]
           /\ conn' = S
    /\ UNCHANGED <<phase, rxq, phy, rphy, cfgs, cfg>>

SetConfigs(cs)   == cfgs' = cs /\ cfg' = cs[1] /\ UNCHANGED <<phase, conn, sched, rxq, phy, rphy>>
SwitchConfig(i)  == i \in 1..Len(cfgs) /\ cfg' = cfgs[i] /\ UNCHANGED <<phase, conn, sched, rxq, phy, rphy, cfgs>>

TypeOK ==
    /\ phase \in {"adv", "conn"}
    /\ sched.evt >= -1
    /\ phase = "conn" => conn.last >= -1 /\ sched.evt > conn.last
    /\ conn.proc.kind \in {"none", "upd", "chm", "phy"}
=============================================================================
