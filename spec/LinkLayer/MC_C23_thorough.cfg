CONSTANTS OwnSca = 500  Check = {"C21","C22","C23"}
  MaxSteps = 5  Lats = {0, 1, 2, 3}  DsNeg = {}  DsPos = {2, 3}  IndKinds = {"chm"}  Starts = {0, 65527}  ConnInt = 6  ConnTo = 100  Cancels = TRUE
SPECIFICATION MCSpec
INVARIANTS TypeOK WindowHit ChannelAgree PhyAgree SkipBound NoJumpOverInstant
CHECK_DEADLOCK FALSE
