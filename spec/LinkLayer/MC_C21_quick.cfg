CONSTANTS OwnSca = 500  Check = {"C21","C22","C23"}
  MaxSteps = 4  Lats = {2}  DsNeg = {1}  DsPos = {0, 1, 2}  IndKinds = {"upd", "chm", "phy"}  Starts = {0}  ConnInt = 6  ConnTo = 100  Cancels = FALSE
SPECIFICATION MCSpec
INVARIANTS TypeOK WindowHit ChannelAgree PhyAgree SkipBound NoJumpOverInstant
CHECK_DEADLOCK FALSE
