--------------------------- MODULE LinkLayerTrace ---------------------------
(* Trace validation: every event recorded by harness/ll/ll_harness.cpp must be a step of LinkLayer. *)
(* Event format: see harness/ll/README.md.  Each event carries the environment's input and the      *)
(* complete answer of the link layer (radio calls + application callbacks) of one harness operation. *)
EXTENDS LinkLayer, Json, IOUtils, TLC

CONSTANT Phy2M      \* the radio of the variant supports the 2 MBit PHY (otherwise LL_PHY_UPDATE_IND is an unknown PDU)

Tr == ndJsonDeserialize(IOEnv.TRACE)

VARIABLE l
tvars == <<vars, l>>

Ev == Tr[l]

\* --- decoding ---------------------------------------------------------------------------------
Bit(b, j) == (b \div (2 ^ j)) % 2
MapOf(bytes) == { c \in 0..36 : Bit(bytes[(c \div 8) + 1], c % 8) = 1 }
U16(pdu, i)  == pdu[i] + 256 * pdu[i + 1]

Out(ev) == [k   |-> IF ev.nsched = 1 /\ ev.nadv = 0 THEN "sched"
                    ELSE IF ev.nsched = 0 /\ ev.nadv = 1 THEN "adv"
                    ELSE IF ev.nsched = 0 /\ ev.nadv = 0 THEN "none" ELSE "bad",
            ch  |-> ev.ch, s |-> ev.s, e |-> ev.en, ci |-> ev.ci,
            phy |-> ev.phy, phyafter |-> ev.phyafter, cb |-> ev.cb, disok |-> ev.disok]

Blank == [k |-> "other", inst |-> 0, int |-> 0, lat |-> 0, to |-> 0, off |-> 0, size |-> 0, map |-> {}, prx |-> 0, ptx |-> 0]

\* a PDU in air format: <<header, length, payload...>>
Entry(pdu) ==
    LET llid == pdu[1] % 4
        len  == pdu[2]
    IN  IF llid = 3 /\ len = 12 /\ pdu[3] = 0
        THEN [Blank EXCEPT !.k = "upd", !.size = pdu[4] * U, !.off = U16(pdu, 5) * U, !.int = U16(pdu, 7),
                           !.lat = U16(pdu, 9), !.to = U16(pdu, 11), !.inst = U16(pdu, 13)]
        ELSE IF llid = 3 /\ len = 8 /\ pdu[3] = 1
        THEN [Blank EXCEPT !.k = "chm", !.map = MapOf(SubSeq(pdu, 4, 8)), !.inst = U16(pdu, 9)]
        ELSE IF Phy2M /\ llid = 3 /\ len = 5 /\ pdu[3] = 24
        THEN [Blank EXCEPT !.k = "phy", !.prx = pdu[4], !.ptx = pdu[5], !.inst = U16(pdu, 6)]
        ELSE IF llid = 3 /\ len = 9 /\ pdu[3] = 8
        THEN [Blank EXCEPT !.k = "feat"]
        ELSE IF llid = 2 /\ len = 7 /\ pdu[7] = 10
        THEN [Blank EXCEPT !.k = "att"]
        ELSE Blank

\* the PDUs of interest that the link layer's receive buffer accepted in this event
RxOf(ev) ==
    LET F[n \in 0..Len(ev.rx)] ==
            IF n = 0 THEN <<>>
            ELSE IF ev.acc[n] /\ Entry(ev.rx[n]).k # "other" THEN Append(F[n - 1], Entry(ev.rx[n])) ELSE F[n - 1]
    IN  F[Len(ev.rx)]

FlagsOf(ev) == [unack |-> ev.f_unack, rxne |-> ev.f_rxne, txne |-> ev.f_txne, md |-> ev.f_md, pend |-> ev.f_pend, err |-> ev.f_err]

ConnParams(ev) == [ws |-> ev.ws, wo |-> ev.wo, int |-> ev.int, lat |-> ev.lat, to |-> ev.to,
                   map |-> MapOf(ev.map), hop |-> ev.hop, scac |-> ev.scac]

CfgsOf(ev) == [i \in 1..Len(ev.cfgs) |-> { ev.cfgs[i][j] : j \in 1..Len(ev.cfgs[i]) }]

Silent == {"AdvTimeout", "Notify", "Nop", "Disconnect", "PhyReq", "AdvPdu"}

Explain(ev) ==
    \/ /\ ev.e = "Reset" /\ ev.own_sca = OwnSca /\ ev.phy2m = Phy2M
       /\ phase' = "adv" /\ conn' = NoConn /\ sched' = NoSched /\ rxq' = <<>> /\ phy' = <<1, 1>> /\ rphy' = <<1, 1>>
       /\ cfgs' = CfgsOf(ev) /\ cfg' = CfgsOf(ev)[1]
    \/ ev.e \in Silent   /\ UNCHANGED vars
    \/ ev.e = "ConnReq"  /\ ConnReq(ConnParams(ev), Out(ev))
    \/ ev.e = "Timeout"  /\ Timeout(ev.now, Out(ev))
    \/ ev.e = "EndEvent" /\ EndEvent(ev.dt, FlagsOf(ev), ev.pend0, RxOf(ev), Out(ev))
    \/ ev.e = "Cancel"   /\ IF phase = "adv" /\ Out(ev).k = "none" THEN UNCHANGED vars ELSE Cancel(Out(ev))
    \/ ev.e = "FF"       /\ ev.rem = 0 /\ FastForward(ev.ivals, Out(ev))
    \/ ev.e = "LatCfg"   /\ SwitchConfig(ev.i + 1)


\* --- diagnosis of a rejected event (labels the finding; evaluated on the state before the event) ---------------
\* which guard of SchedGuards rejects the scheduled event o (S = connection record the answer is judged against)
\* the event lies before a channel map instant but is scheduled on the channel the NEW map would give
LaterMap(S, m, o) == S.proc.kind = "chm" /\ m < S.proc.mI /\ o.ch = CSA1(S.proc.map, S.par.hop, m)

SchedDiag(S, o, must, curphy, radiophy) ==
    IF Cand(S, o) = {} THEN <<"sched", "window_matches_no_event">>
    ELSE LET m == CHOOSE x \in Cand(S, o) : TRUE
             k == m - S.last
         IN  IF "C22" \in Check /\ ~TimingOK(S, m, o)
             THEN <<"sched", IF WinAt(S, m) = NoWin THEN "window" ELSE "transmit_window", "k", k>>
             ELSE IF "C23" \in Check /\ k > S.par.lat + 1 THEN <<"sched", "skips_more_than_latency", "k", k, "lat", S.par.lat>>
             ELSE IF "C23" \in Check /\ must /\ k # 1 THEN <<"sched", "listen_condition_ignored", "k", k>>
             ELSE IF "C23" \in Check /\ ~ChannelOK(S, m, o)
                  THEN <<"sched", IF LaterMap(S, m, o) THEN "channel_uses_map_of_later_instant" ELSE "channel", "k", k>>
             ELSE IF "C21" \in Check /\ S.proc.kind # "none" /\ m > S.proc.mI THEN <<"sched", "skips_instant", S.proc.kind>>
             ELSE IF "C21" \in Check /\ S.had /\ ~(TimingOK(S, m, o) /\ o.ci = IntAt(S, m) * U /\ ChannelOK(S, m, o))
                  THEN <<"sched", IF LaterMap(S, m, o) /\ TimingOK(S, m, o) THEN "parameters_of_later_instant" ELSE "wrong_parameters", S.proc.kind,
                         IF S.proc.kind = "none" THEN "after_instant" ELSE IF m < S.proc.mI THEN "before_instant" ELSE "at_instant">>
             ELSE IF "C21" \in Check /\ ~(RadioPhy(o, radiophy) = PhyAt(S, m, curphy) /\ o.phyafter = 0)
                  THEN <<"sched", IF S.proc.kind = "phy" /\ m < S.proc.mI /\ RadioPhy(o, radiophy) = <<S.proc.prx, S.proc.ptx>> THEN "phy_of_later_instant" ELSE "phy",
                         S.proc.kind, IF S.proc.kind = "phy" /\ m < S.proc.mI THEN "before_instant" ELSE "at_instant">>
             ELSE <<"sched", "other">>

DClass(d) == IF d <= -2 THEN "d<=-2" ELSE IF d = -1 THEN "d=-1" ELSE IF d = 0 THEN "d=0" ELSE IF d = 1 THEN "d=1" ELSE "d>=2"

Diag(ev) ==
    LET o == Out(ev) IN
    IF ev.e = "ConnReq"
    THEN IF o.k = "bad" THEN <<"connreq", "radio_armed_twice">>
         ELSE IF "C22" \in Check /\ ~ValidConn(ConnParams(ev)) THEN <<"connreq", "invalid_parameters_connected">>
         ELSE <<"connreq", "first_event">>
    ELSE IF ev.e = "Timeout"
    THEN IF phase # "conn" THEN <<"timeout", "no_connection">>
         ELSE IF o.k = "adv"
              THEN <<"timeout", IF conn.est THEN "closed_before_supervision_timeout" ELSE "attempt_timeout_before_6_intervals">>
         ELSE IF o.k # "sched" THEN <<"timeout", "radio_not_armed", o.k>>
         ELSE IF "C22" \in Check /\ ~(IF conn.est THEN NomT(conn, sched.evt) < ToAt(conn, sched.evt) * TU + IntAt(conn, sched.evt) * U ELSE sched.evt < 5)
              THEN <<"timeout", IF conn.est THEN "not_closed_after_supervision_timeout" ELSE "still_connecting_after_6_intervals">>
         ELSE <<"timeout">> \o SchedDiag(TookTimeout(conn, sched.evt), o, FALSE, PhyAfter(conn, sched.evt, phy), rphy)
    ELSE IF ev.e = "EndEvent"
    THEN IF phase # "conn" THEN <<"event", "no_connection">>
         ELSE IF ~(ev.dt >= sched.s /\ ev.dt <= sched.e) THEN <<"event", "env_packet_outside_window">>
         ELSE IF o.k \notin {"sched", "adv"} THEN <<"event", "radio_not_armed", o.k>>
         ELSE LET m   == sched.evt
                  S0  == TookAnchor(conn, m)
                  r28 == o.k = "adv" /\ InstantPassed \in ClosedReasons(o)
                  q   == rxq \o RxOf(ev)
                  P   == Process(S0, q, m, ProbeCbs(o), r28)
                  blocked == S0.proc.kind # "none" /\ S0.proc.mI > m
                  n1  == LeadLen(q)
              IN  IF "C21" \in Check /\ ~P.ok
                  THEN IF blocked THEN <<"instant", "closed_or_callbacks_while_pending">>
                       ELSE IF n1 = Len(q) THEN <<"instant", IF r28 THEN "closed_0x28_without_indication" ELSE "received_data_not_processed", "pending", conn.proc.kind>>
                       ELSE IF ~IsPrefix(Kinds(SubSeq(q, 1, n1)), ProbeCbs(o)) THEN <<"instant", "received_data_not_processed", "pending", conn.proc.kind>>
                       ELSE <<"instant", q[n1 + 1].k, DClass(SDist(q[n1 + 1].inst, m)), IF r28 THEN "closed_0x28" ELSE "accepted">>
                  ELSE IF "C21" \in Check /\ o.k = "adv" /\ ~r28 THEN <<"event", "closed_other_reason">>
                  ELSE IF "C22" \in Check /\ o.k = "adv" /\ SupervisionTimeout \in ClosedReasons(o) THEN <<"event", "closed_0x08_in_received_event">>
                  ELSE IF o.k = "adv" THEN <<"event", "closed">>
                  ELSE <<"event">> \o SchedDiag(P.S, o, MustListen(FlagsOf(ev), ev.pend0), PhyAfter(conn, m, phy), rphy)
    ELSE IF ev.e = "Cancel"
    THEN IF phase # "conn" THEN <<"cancel", "no_connection">>
         ELSE IF o.k = "none" THEN <<"cancel", "disarmed_but_not_armed_again">>
         ELSE IF o.k # "sched" THEN <<"cancel", "radio", o.k>>
         ELSE IF "C23" \in Check /\ Cand(conn, o) # {} /\ (CHOOSE x \in Cand(conn, o) : TRUE) > sched.evt THEN <<"cancel", "moved_later">>
         ELSE <<"cancel">> \o SchedDiag(conn, o, FALSE, phy, rphy)
    ELSE IF ev.e = "FF"
    THEN IF phase = "conn" /\ ev.rem = 0 /\ o.k = "sched"
         THEN <<"ff">> \o SchedDiag([conn EXCEPT !.last = conn.ref.evt + ev.ivals, !.ref = [evt |-> conn.ref.evt + ev.ivals, t |-> 0]], o, FALSE, phy, rphy)
         ELSE <<"ff", "precondition">>
    ELSE <<ev.e, "unexplained">>

Resets == {i \in 1..Len(Tr) : Tr[i].e = "Reset"}
NextReset(i) == IF \E j \in Resets : j > i
                THEN CHOOSE j \in Resets : j > i /\ \A k \in Resets : k > i => j <= k
                ELSE Len(Tr) + 1

TInit == Init /\ l = 1

TNext ==
    \/ /\ l <= Len(Tr)
       /\ IF ENABLED Explain(Ev)
          THEN Explain(Ev) /\ l' = l + 1
          ELSE PrintT(<<"MISMATCH", l>>) /\ PrintT(<<"DIAG", l, Diag(Ev)>>) /\ l' = NextReset(l) /\ UNCHANGED vars
    \/ /\ l = Len(Tr) + 1
       /\ PrintT(<<"TRACE_DONE", Len(Tr)>>)
       /\ l' = l + 1 /\ UNCHANGED vars

TSpec == TInit /\ [][TNext]_tvars
=============================================================================
