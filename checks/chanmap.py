"""C20 - data channel selection follows Channel Selection Algorithm #1.

spec/ChannelMap/ChannelMap.tla        CSA#1 transcribed from the Core specification + link level state machine
                                      (CONNECT_IND, LL_CHANNEL_MAP_IND at an instant, latency skips); model checked
spec/ChannelMap/ChannelMapGen.tla     generator of link layer scenarios (BFS over small alphabets / random long ones)
spec/ChannelMap/ChannelMapTrace.tla   trace validation: class level table rows and link layer connection events
harness/chanmap                       real channel_map class (mode class) and real link_layer on test::radio (mode ll)

The class level argument space (channel map x hop increment) is a plain grid and is enumerated here; the
expected value of every row is computed by TLC from the TLA+ operators during trace validation.
"""
import itertools
import json
import os
import random
import subprocess
import time
from concurrent.futures import ThreadPoolExecutor

import vlib

PROPS = ["C20"]
META = {"C20": {
    "text": "CSA#1 is transcribed from the Core specification into TLA+ and model checked (result in map, identity on "
            "full maps, recursion = table by event index, period 37, behaviour across LL_CHANNEL_MAP_IND instants and "
            "counter wrap). The real channel_map::reset/data_channel is executed for every enumerated (map, hop) - all "
            "maps with <=2 unused channels, all maps with 0..3 used channels, seeded random maps, reserved bits set, "
            "hops 0..31 - and every row (result of reset, all 37 table entries, table unchanged after a refused reset) "
            "is validated by TLC against the TLA+ operators. The real link_layer on the repository's simulated radio is "
            "driven with TLC-generated scenarios (CONNECT_IND, empty PDUs / timeouts / LL_CHANNEL_MAP_IND, peripheral "
            "latency, counter wrap) and the channel of every scheduled connection event is validated against the model.",
    "note": "2^37 maps are sampled (structured families contain every remapping table size); link layer level uses "
            "test::radio (no packet loss inside an event) and one supervision/interval setting; instants are always "
            "in the future (instant handling itself is C21); trusted: TLC, harness/chanmap, g++/ASan.",
    "technique": "TLA+ reference definition model checked with TLC + exhaustive/random argument tables and TLC-generated "
                 "link layer scenarios executed on the real code + TLC trace validation",
    "design_ref": "5.5"}}

NCH = 37
FULL = (1 << NCH) - 1
NULLC = "CONSTANTS Maps = {}  UMaps = {}  Hops = {}  Steps = {}  NMax = 0\n"
TRACE_CFG = NULLC + "SPECIFICATION TSpec\nINVARIANTS TypeOK\nCHECK_DEADLOCK FALSE\n"
CHAIN = 40          # class level rows per execution


# ------------------------------------------------------------------------------------------------
# build helper: same flags as vlib.build, but the translation units are compiled in parallel
# ------------------------------------------------------------------------------------------------
def build_parallel(c, name, sources, defines=None, link=None, jobs=4):
    flags = ["-std=c++11", "-O1", "-g", "-DNDEBUG", "-D" + vlib.GUARD, "-fno-omit-frame-pointer", "-w",
             "-fsanitize=address,undefined", "-fno-sanitize-recover=undefined"] + vlib.INCLUDES
    flags += ["-D" + d for d in (defines or [])]
    srcs = [s if os.path.isabs(s) else os.path.join(vlib.HARNESS, s) for s in sources]
    t0 = time.time()

    def cc(i_s):
        i, s = i_s
        o = os.path.join(c.build_dir, "%s_%d.o" % (name, i))
        p = subprocess.run(["timeout", "900", "g++"] + flags + ["-c", s, "-o", o], stdout=subprocess.PIPE,
                           stderr=subprocess.STDOUT, universal_newlines=True, errors="replace")
        if p.returncode != 0:
            raise vlib.ToolFailure("harness build failed (%s: %s):\n%s" % (name, s, p.stdout[-6000:]))
        return o
    with ThreadPoolExecutor(jobs) as ex:
        objs = list(ex.map(cc, enumerate(srcs)))
    out = os.path.join(c.build_dir, name)
    p = subprocess.run(["g++", "-fsanitize=address,undefined"] + objs + ["-o", out, "-pthread"] + (link or []),
                       stdout=subprocess.PIPE, stderr=subprocess.STDOUT, universal_newlines=True, errors="replace")
    if p.returncode != 0:
        raise vlib.ToolFailure("harness link failed (%s):\n%s" % (name, p.stdout[-6000:]))
    c.note("built %s in %.1fs" % (name, time.time() - t0))
    return out


# ------------------------------------------------------------------------------------------------
# class level grid
# ------------------------------------------------------------------------------------------------
def mbytes(m):
    return " ".join(str((m >> (8 * i)) & 255) for i in range(5))


def mask(chs):
    r = 0
    for ch in chs:
        r |= 1 << ch
    return r


def grid(c):
    """-> list of (map as 40 bit int, hop) rows, list of maps for reset(map) rows, description"""
    rnd = random.Random(c.seed)
    rows, desc = [], {}
    allhops = list(range(32))
    valid = list(range(5, 17))
    few_unused1 = [FULL & ~mask(s) for k in (0, 1) for s in itertools.combinations(range(NCH), k)]
    unused2 = [FULL & ~mask(s) for s in itertools.combinations(range(NCH), 2)]
    used01 = [mask(s) for k in (0, 1) for s in itertools.combinations(range(NCH), k)]
    used2 = [mask(s) for s in itertools.combinations(range(NCH), 2)]
    used3 = [mask(s) for s in itertools.combinations(range(NCH), 3)]

    def rot(i, n):          # n hops for the i-th map of a family: rotate through valid hops, add an invalid one
        hs = [valid[(i * 5 + 7 * j) % 12] for j in range(n - 1)]
        return hs + [(0, 4, 17, 31, 18, 1)[i % 6]]
    if c.quick:
        rows += [(m, h) for m in few_unused1 for h in allhops]
        rows += [(m, h) for i, m in enumerate(unused2) for h in rot(i, 3)]
        rows += [(m, h) for i, m in enumerate(used2) for h in rot(i, 3)]
        sub3 = [m for i, m in enumerate(used3) if i % 10 == c.seed % 10]
        rows += [(m, h) for i, m in enumerate(sub3) for h in rot(i, 2)]
        rows += [(m, h) for i, m in enumerate(used01) for h in rot(i, 4)]
        nrand, hr = 400, 2
        desc["families"] = {"<=1 unused x hops 0..31": len(few_unused1), "2 unused x 3 hops": len(unused2),
                            "2 used x 3 hops": len(used2), "3 used (every 10th) x 2 hops": len(sub3),
                            "0/1 used x 4 hops": len(used01)}
    else:
        rows += [(m, h) for m in few_unused1 + unused2 + used2 + used01 for h in allhops]
        rows += [(m, h) for m in used3 for h in valid + [0, 4, 17, 31]]
        nrand, hr = 5000, 4
        desc["families"] = {"<=2 unused x hops 0..31": len(few_unused1) + len(unused2), "0..2 used x hops 0..31":
                            len(used2) + len(used01), "3 used x 12 valid + 4 invalid hops": len(used3)}
    rmaps = []
    for i in range(nrand):
        dens = rnd.choice((0.05, 0.1, 0.3, 0.5, 0.7, 0.9, 0.95))
        rmaps.append(mask([ch for ch in range(NCH) if rnd.random() < dens]))
    rows += [(m, h) for i, m in enumerate(rmaps) for h in rot(i + c.seed, hr)]
    desc["families"]["seeded random maps x %d hops" % hr] = nrand
    # reserved bits 37..39 set: they must not count as used channels and must not change the result
    rsv = [(m | (r << NCH), h) for i, (m, h) in enumerate(rows) if i % 23 == 0 for r in (7, 1 + (i // 23) % 6)]
    rows += rsv
    desc["rows_with_reserved_bits"] = len(rsv)
    rnd.shuffle(rows)
    # maps for channel map updates at class level (reset(map), hop kept): mix of valid and invalid
    umaps = used01 + [m for i, m in enumerate(used2) if i % 9 == 0] + few_unused1[::4] + rmaps[:200 if c.quick else 1500]
    umaps += [m | (7 << NCH) for m in used01[::3]]
    rnd.shuffle(umaps)
    return rows, umaps, desc


def class_scripts(rows, umaps):
    """-> list of executions, each a list of script lines. Every execution: reset, anchor reset(all channels,
    valid hop), a block of reset(map) rows (a channel map update is only sent on an established connection),
    then reset(map, hop) rows - refused ones must leave the table of the previous row untouched."""
    execs, ui = [], 0
    per = max(1, len(umaps) * CHAIN // max(1, len(rows)) + 1)
    for k, i in enumerate(range(0, len(rows), CHAIN)):
        lines = ["reset"]
        if k % 3 != 2:
            lines.append("r2 %s %d" % (mbytes(FULL), 5 + k % 12))
            for m in umaps[ui:ui + per]:
                lines.append("r1 %s" % mbytes(m))
            ui += per
        lines += ["r2 %s %d" % (mbytes(m), h) for m, h in rows[i:i + CHAIN]]
        execs.append(lines)
    return execs


def used_class(mapbytes):
    n = bin(sum(b << (8 * i) for i, b in enumerate(mapbytes)) & FULL).count("1")
    return str(n) if n < 3 else ("37" if n == NCH else "3+")


def hop_class(h):
    return "ok" if 5 <= h <= 16 else ("low" if h < 5 else "high")


def signature(mode, ev, evs_before):
    e = ev.get("e")
    if e in ("reset2", "Connect"):
        return "%s:%s:used=%s:hop=%s:r=%s" % (mode, e, used_class(ev["map"]), hop_class(ev["hop"]), ev.get("r"))
    if e == "reset1":
        return "%s:reset1:used=%s:r=%s" % (mode, used_class(ev["map"]), ev.get("r"))
    if e == "Ev":
        lat = next((x["lat"] for x in evs_before if x.get("e") == "Connect"), 0)
        upd = any(x.get("e") == "MapInd" for x in evs_before)
        return "ll:Ev:lat=%s:after_map_ind=%s" % ("0" if lat == 0 else ">0", upd)
    return "%s:%s" % (mode, e)


# ------------------------------------------------------------------------------------------------
# link layer scenarios
# ------------------------------------------------------------------------------------------------
def ll_script(beh, max_events=None):
    lines = [" ".join(str(x) for x in op) for op in beh]
    n = len(beh) - 1
    return lines + ["run %d" % (max_events if max_events else n + 10)]


def one_per_prefix(behs):
    """TLC -simulate evaluates the Emit invariant on every candidate successor of the last step, so one random
    walk is printed once per possible last operation: keep one behaviour per walk (rotating through the last ops)"""
    groups, order = {}, []
    for b in behs:
        key = json.dumps(b[:-1])
        if key not in groups:
            groups[key] = []
            order.append(key)
        groups[key].append(b)
    return [groups[k][i % len(groups[k])] for i, k in enumerate(order)]


def gen_cfg(c, name, d, sim):
    maps, umaps = ("SimMaps", "SimUMaps") if sim else ("BfsMaps", "BfsUMaps")
    hops = "{0, 4, 5, 6, 7, 9, 11, 13, 16, 17, 31}" if sim else "{4, 5, 16, 17}"
    lats = "{0, 1, 3, 7}" if sim else "{0, 2}"
    offs = "{1, 2, 6, 9}" if sim else "{1, 3}"
    return vlib.write_cfg(c, name, NULLC + "CONSTANTS D = %d  GMaps <- %s  GUMaps <- %s  GHops = %s  GLats = %s  "
                          "GOffs = %s  GRsv = %s\nSPECIFICATION GSpec\nINVARIANTS Emit\nCHECK_DEADLOCK FALSE\n"
                          % (d, maps, umaps, hops, lats, offs, "{0, 5}" if sim else "{0}"))


def special_ll(c):
    """hand made long scenarios: 16 bit counter wrap with an instant behind the wrap"""
    even = mbytes(mask(range(0, NCH, 2)))
    res = []
    # maximum latency: 131 listened events cross counter 65535 -> 0
    b = [["conn"] + mbytes(FULL).split() + [9, 499]] + [["r"]] * 129 + [["m"] + even.split() + [3]] + [["r"]] * 12
    res.append((b, len(b) + 10))
    b = [["conn"] + mbytes(FULL & ~mask([1, 2, 3])).split() + [16, 100]] + [["r"]] * 648 + [["m"] + mbytes(3).split() + [2]] + [["r"]] * 6 \
        + [["m"] + even.split() + [700]] + [["r"]] * 12
    res.append((b, len(b) + 10))
    if not c.quick:
        b = [["conn"] + mbytes(FULL).split() + [7, 0]] + [["r"]] * 65530 + [["m"] + even.split() + [8]] + [["r"]] * 60
        res.append((b, len(b) + 10))
        b = [["conn"] + mbytes(FULL & ~mask([0, 36])).split() + [13, 3]] + [["r"]] * 16380 + [["t"], ["t"], ["m"] + mbytes(mask([5, 6, 30])).split() + [9]] + [["r"]] * 40
        res.append((b, len(b) + 10))
    return res


# ------------------------------------------------------------------------------------------------
def run_and_validate(c, exe, mode, scripts, nfiles):
    """scripts: list of executions (lists of lines). Runs the harness, validates, reports findings."""
    traces, parts = [], vlib.chunks(scripts, nfiles)
    for i, part in enumerate(parts):
        sp = os.path.join(c.build_dir, "s_%s_%d.txt" % (mode, i))
        tp = os.path.join(c.build_dir, "t_%s_%d.ndjson" % (mode, i))
        vlib.write_lines(sp, [l for ex in part for l in ex])
        rc, out = vlib.run_harness(exe, [mode, sp, tp], timeout=1200)
        if rc != 0:
            raise vlib.ToolFailure("harness failed rc=%d: %s" % (rc, out[-2000:]))
        traces.append(tp)
    tcfg = vlib.write_cfg(c, "trace.cfg", TRACE_CFG)
    verdicts = vlib.validate_parallel("ChannelMap", "ChannelMapTrace.tla", tcfg, traces, timeout=3000)
    counts = c.extra.setdefault("events_by_action", {})
    for part, tp in zip(parts, traces):
        v = verdicts[tp]
        execs = vlib.split_executions(tp)
        crashed = bool(execs) and execs[-1][1][-1].get("e") == "Crash"     # reported through the MISMATCH of that event
        if len(execs) != len(part) and not (crashed and len(execs) < len(part)):
            raise vlib.ToolFailure("%s: %d executions recorded for %d scripts" % (tp, len(execs), len(part)))
        c.add_traces(len(execs), v.events)
        for _, evs in execs:
            for ev in evs:
                counts[ev["e"]] = counts.get(ev["e"], 0) + 1
        if len(c.samples) < 4:
            c.sample({"mode": mode, "script": part[0][:12], "trace": execs[0][1][:6]})
        for ln in v.mismatch_lines:
            k = max(i for i, e in enumerate(execs) if e[0] <= ln)
            first, evs = execs[k]
            ev = evs[ln - first]
            c.finding(signature(mode, ev, evs[:ln - first]),
                      "%s level: event %s is not a step of ChannelMap (CSA#1 / validity rule); preceding: %s"
                      % (mode, json.dumps(ev), json.dumps(evs[max(0, ln - first - 2):ln - first])),
                      {"mode": mode, "script": part[k], "event_index": ln - first})


def run(c):
    c.assumptions += [
        "class level: channel_map::reset(map) (channel map update) is only called after a successful reset(map, hop) "
        "with no refused reset(map, hop) in between (the link layer only does this on an established connection)",
        "link layer level: repository's test::radio, interval 7.5 ms, valid timing parameters, LL_CHANNEL_MAP_IND "
        "instants 1..700 events in the future, at most one pending update",
        "reserved bits 37..39 of ChM are ignored (Core spec: reserved for future use)"]
    with ThreadPoolExecutor(2) as ex:
        f_cls = ex.submit(vlib.build, c, "chanmap_class",
                          ["chanmap/chanmap_harness.cpp", vlib.REPO + "/bluetoe/link_layer/channel_map.cpp"],
                          defines=["CHANMAP_NO_LL"])
        f_ll = ex.submit(build_parallel, c, "chanmap_ll",
                         ["chanmap/chanmap_harness.cpp"] + [s for s in vlib.LL_SOURCES if os.path.exists(s)] +
                         [vlib.REPO + "/tests/test_tools/" + f for f in ("test_radio.cpp", "test_servers.cpp", "hexdump.cpp")],
                         link=["-lboost_unit_test_framework"])
        # (also in replay mode, so that the evidence file of a replay run is complete)
        vlib.model_check(c, "ChannelMap", "ChannelMap.tla", "MCq.cfg" if c.quick or c.replay else "MC.cfg", workers=4)
        exe_cls, exe_ll = f_cls.result(), f_ll.result()
    if c.replay:
        return replay(c, exe_cls, exe_ll)

    # class level
    rows, umaps, desc = grid(c)
    scripts = class_scripts(rows, umaps)
    c.extra["class_level"] = dict(desc, rows=len(rows), update_rows=len(umaps), executions=len(scripts),
                                  rule="grid enumerated by checks/chanmap.py; expected values computed by TLC "
                                       "(ChannelMapTrace.tla: Reset2/Reset1/TabOK)")
    run_and_validate(c, exe_cls, "class", scripts, 4 if c.quick else 8)

    # link layer level
    behs = vlib.generate(c, "ChannelMap", "ChannelMapGen.tla", gen_cfg(c, "gen.cfg", 3 if c.quick else 4, False), workers=4)
    nb = len(behs)
    nsim, dsim = (60, 60) if c.quick else (600, 120)
    sims = one_per_prefix(vlib.generate(c, "ChannelMap", "ChannelMapGen.tla", gen_cfg(c, "sim.cfg", dsim, True),
                                        simulate=max(1, nsim // 4), depth=dsim + 1, seed=c.seed, workers=4, timeout=2400))
    scripts = [ll_script(b) for b in behs + sims] + [ll_script(b, mx) for b, mx in special_ll(c)]
    c.extra["link_layer_level"] = {"bfs_behaviours": nb, "bfs_depth": 3 if c.quick else 4, "random_behaviours": len(sims),
                                   "random_depth": dsim, "special": len(special_ll(c))}
    c.sample({"ll_behaviour": sims[0][:10]})
    run_and_validate(c, exe_ll, "ll", scripts, 4 if c.quick else 8)
    c.exhaustive = False     # 2^37 maps are sampled; the listed families are complete


def replay(c, exe_cls, exe_ll):
    case = json.load(open(c.replay))["case"]
    mode = case["mode"]
    sp = vlib.write_lines(os.path.join(c.build_dir, "replay.txt"), case["script"])
    tp = os.path.join(c.build_dir, "replay.ndjson")
    vlib.run_harness(exe_cls if mode == "class" else exe_ll, [mode, sp, tp])
    tcfg = vlib.write_cfg(c, "trace.cfg", TRACE_CFG)
    v = vlib.validate_trace("ChannelMap", "ChannelMapTrace.tla", tcfg, tp)
    evs = vlib.read_ndjson(tp)
    c.add_traces(1, v.events)
    c.sample(evs[:8])
    for ln in v.mismatch_lines:
        c.finding(signature(mode, evs[ln - 1], evs[:ln - 1]), "replayed case rejected at event %d: %s" % (ln, evs[ln - 1]), case)
