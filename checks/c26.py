"""C26 - white list behaves as a bounded set.

spec/WhiteList/WhiteList.tla        property-level model (exhaustively model checked)
spec/WhiteList/WhiteListGen.tla     behaviour generator (all op sequences to depth D / random deep ones)
spec/WhiteList/WhiteListTrace.tla   trace validation of the recorded calls of the real classes
harness/whitelist                   replays behaviours on white_list<N> (software and radio-backed impl)
"""
import os
import vlib

PROPS = ["C26"]
META = {"C26": {
    "text": "TLC explores the whole WhiteList set model (N=3, 5 addresses); every operation sequence of the "
            "generator model up to depth 3/4 plus random deep ones is replayed on the real software and "
            "radio-backed white_list<N> classes and every recorded call (result + full observable state) is "
            "validated by TLC against the set model.",
    "note": "bounded N (2,3) and address universe (N+2); radio-backed variant checks forwarding to a stub radio "
            "that implements the set; trusted: TLC, harness/whitelist, g++/ASan.",
    "technique": "TLA+ model checking (TLC) + TLC-generated behaviours replayed on the real class + TLC trace validation",
    "design_ref": "5.7"}}

CONFIGS = [(2, 4), (3, 5)]      # (N, size of address universe)


def consts(n, u, extra=""):
    return "CONSTANTS N = %d  Addr = {%s} %s\n" % (n, ",".join(str(i) for i in range(u)), extra)


def script_of(behaviour):
    return ["reset"] + [" ".join(str(x) for x in op) for op in behaviour]


def signature(ev):
    return "%s:%s" % (ev.get("e"), "r=%s" % ev.get("r") if "r" in ev else "obs")


def run(c):
    c.assumptions += ["address universe of N+2 ids (public/random variants of the same bytes are distinct ids)",
                      "radio-backed variant: the stub radio implements the set, only the forwarding is checked"]
    # 1. design level
    vlib.model_check(c, "WhiteList", "WhiteList.tla", "MC.cfg")
    exes = {}
    for n, u in CONFIGS:
        exes[(n, u)] = vlib.build(c, "wl_%d_%d" % (n, u),
                                  ["whitelist/whitelist_harness.cpp", vlib.REPO + "/bluetoe/utility/address.cpp"],
                                  defines=["WL_SIZE=%d" % n, "WL_UNIVERSE=%d" % u])
    depth = 3 if c.quick else 4
    if c.replay:
        return replay(c, exes)
    nsim, dsim = (150, 30) if c.quick else (2500, 60)
    for n, u in CONFIGS:
        behs = []
        if (n, u) == CONFIGS[0]:
            cfg = vlib.write_cfg(c, "gen_%d.cfg" % n, consts(n, u, "D = %d" % depth) +
                                 "SPECIFICATION GSpec\nINVARIANTS Emit\nCHECK_DEADLOCK FALSE\n")
            behs += vlib.generate(c, "WhiteList", "WhiteListGen.tla", cfg)
            c.exhaustive = True
        cfg = vlib.write_cfg(c, "sim_%d.cfg" % n, consts(n, u, "D = %d" % dsim) +
                             "SPECIFICATION GSpec\nINVARIANTS Emit\nCHECK_DEADLOCK FALSE\n")
        behs += vlib.generate(c, "WhiteList", "WhiteListGen.tla", cfg, simulate=max(1, nsim // 8), depth=dsim + 1,
                              seed=c.seed, workers=8)[:nsim]
        c.sample({"N": n, "behaviour": behs[0]})
        c.sample({"N": n, "behaviour": behs[-1]})
        tcfg = vlib.write_cfg(c, "trace_%d.cfg" % n, consts(n, u) +
                              "SPECIFICATION TSpec\nINVARIANTS TypeOK Bounded\nCHECK_DEADLOCK FALSE\n")
        for variant in ("sw", "radio"):
            traces = []
            for i, part in enumerate(vlib.chunks(behs, max(1, min(8, sum(len(b) for b in behs) // 8000)))):
                sp = os.path.join(c.build_dir, "s_%d_%s_%d.txt" % (n, variant, i))
                tp = os.path.join(c.build_dir, "t_%d_%s_%d.ndjson" % (n, variant, i))
                vlib.write_lines(sp, [l for b in part for l in script_of(b)])
                rc, out = vlib.run_harness(exes[(n, u)], [variant, sp, tp])
                if rc != 0:
                    raise vlib.ToolFailure("harness failed rc=%d: %s" % (rc, out[-2000:]))
                traces.append(tp)
            verdicts = vlib.validate_parallel("WhiteList", "WhiteListTrace.tla", tcfg, traces)
            for tp, v in verdicts.items():
                execs = vlib.split_executions(tp)
                c.add_traces(len(execs), v.events)
                for ln in v.mismatch_lines:
                    first, evs = [e for e in execs if e[0] <= ln][-1]
                    ev = evs[ln - first]
                    c.finding("%s:%s" % (variant, signature(ev)),
                              "white_list<%d> (%s): call %s not a step of the set model" % (n, variant, ev),
                              {"variant": variant, "N": n, "universe": u, "events": evs[:ln - first + 1]})


def replay(c, exes):
    import json
    case = json.load(open(c.replay))["case"]
    n, u, variant = case["N"], case["universe"], case["variant"]
    ops = []
    for ev in case["events"]:
        if ev["e"] == "Reset":
            ops.append("reset")
        elif ev["e"] in ("add", "remove"):
            ops.append("%s %d" % (ev["e"], ev["a"]))
        elif ev["e"] == "clear":
            ops.append("clear")
        else:
            ops.append("%s %d" % (ev["e"], 1 if ev["b"] else 0))
    sp = vlib.write_lines(os.path.join(c.build_dir, "replay.txt"), ops)
    tp = os.path.join(c.build_dir, "replay.ndjson")
    vlib.run_harness(exes[(n, u)], [variant, sp, tp])
    tcfg = vlib.write_cfg(c, "trace_r.cfg", consts(n, u) + "SPECIFICATION TSpec\nINVARIANTS TypeOK Bounded\nCHECK_DEADLOCK FALSE\n")
    v = vlib.validate_trace("WhiteList", "WhiteListTrace.tla", tcfg, tp)
    c.add_traces(1, v.events)
    evs = vlib.read_ndjson(tp)
    c.sample(evs)
    for ln in v.mismatch_lines:
        c.finding("%s:%s" % (variant, signature(evs[ln - 1])), "replayed case rejected at event %d: %s" % (ln, evs[ln - 1]), case)
