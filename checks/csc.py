"""C40 - the cycling speed and cadence control point never deadlocks.

spec/Csc/Csc.tla        property-level model of the SC control point (exhaustively model checked, safety + liveness)
spec/Csc/CscGen.tla     behaviour generator (all client/application/link-layer step sequences to depth D, random deep ones)
spec/Csc/CscTrace.tla   trace validation of the recorded steps of the real CSC server
harness/csc             real bluetoe::cycling_speed_and_cadence server driven through l2cap_input / l2cap_output
"""
import json
import os
from concurrent.futures import ThreadPoolExecutor

import vlib
from checks import _minimise

PROPS = ["C40"]
META = {"C40": {
    "text": "TLC model checks the control point procedure model (inProgress/opcode, CCCD, indication queue; safety "
            "invariants and NoDeadlock/EveryProcedureAnswered under fairness of the indication path); every step "
            "sequence of the generator model (control point writes with opcodes 0..5,0xFF x lengths 0..6, CCCD writes, "
            "application confirmation, l2cap_output polls, ATT confirmations) up to depth 2/3 (full alphabet) and 3/4 "
            "(one representative per opcode/length class) plus random deep ones is replayed on two real CSC servers "
            "through l2cap_input/l2cap_output and every recorded step is validated by TLC against the model; each "
            "execution ends with a bounded drain that must deliver exactly the awaited response.",
    "note": "liveness is decided on the model; on the code only its finite shadow (drain of <= 4 poll rounds at the end of "
            "every execution). Environment: indications are not switched off during a procedure, the application confirms "
            "only after a set_cumulative_wheel_revolutions callback, one connection. Trusted: TLC, harness/csc, g++/ASan.",
    "technique": "TLA+ model checking (TLC) + TLC-generated behaviours replayed on the real server + TLC trace validation",
    "design_ref": "5.10"}}

OPCODES = [0, 1, 2, 3, 4, 5, 255]
BASE = "CONSTANTS Opcodes = {0,1,2,3,4,5,255}  MaxLen = 6  PAIP = {128,254}\n"
VARIANTS = [0, 1]          # 0: three sensor locations, wheel + crank;  1: one location, wheel only
TRACE_CFG = BASE + ("CONSTANTS Errors = {}  MaxAcc = 0\nSPECIFICATION TSpec\n"
                    "INVARIANTS PaipOnlyWhileAwaiting AcceptedWhenIdle RejectedWhileAwaiting RejectedChangesNothing OneResponseEach\n"
                    "CHECK_DEADLOCK FALSE\n")


def gen_cfg(c, name, depth, alphabet, leaf_only):
    return vlib.write_cfg(c, name, BASE + "CONSTANTS Errors = {4,254}  MaxAcc = 0  D = %d  Alphabet = \"%s\"\n"
                          "SPECIFICATION GSpec\nINVARIANTS %s\nCHECK_DEADLOCK FALSE\n"
                          % (depth, alphabet, "EmitLeaf" if leaf_only else "Emit"))


def script_of(beh):
    """behaviour (list of ops from CscGen) -> script lines of one execution (without 'reset')"""
    out = []
    for op in beh:
        if op[0] == "write":
            ln, o = op[1], op[2]
            data = ([o] + [1, 0, 0, 0, 0][:ln - 1]) if ln else []
            out.append(" ".join(["write", str(ln)] + [str(b) for b in data]))
        else:
            out.append(" ".join(str(x) for x in op))
    return out + ["drain"]


def classify(ev):
    """event class used in signatures ("input=result"): what matters for C40, no handles, no sizes, no opcode values"""
    e = ev.get("e")
    if e == "write":
        ln, o, r = ev["len"], ev["op"], ev["r"]
        want = {1: 5, 3: 2, 4: 1}
        if ln == 0:
            w = "empty"
        elif o in want:
            w = "known_ok" if ln == want[o] else "known_badlen"
        else:
            w = "unknown_ok" if ln == 1 else "unknown_long"
        rc = "ok" if r == 0 else "paip" if r in (128, 254) else "cccd" if r == 253 else "err"
        if ev.get("set"):
            rc += "+set%d" % ev["set"]
        return "write(%s)=%s" % (w, rc)
    if e == "cccd":
        return "cccd(%d)=%s" % (ev["v"], "ok" if ev["r"] == 0 else "err")
    if e == "output":
        return "output()=%s" % ev["kind"]
    if e == "drain":
        return "drain()=%dresp%s" % (len(ev["ops"]), "+other" if ev["others"] else "")
    if e == "Crash":
        return "crash()=%s" % ev.get("what")
    return "%s()=" % e


def sig_of(classes):
    """<failing step and its result>|after:<minimal history>|at:<input class of the failing step>"""
    inp, _, res = classes[-1].partition("=")
    name, _, arg = inp.partition("(")
    return "%s=%s|after:%s|at:%s" % (name, res, ">".join(classes[:-1]), arg.rstrip(")"))


def run_cases(c, exe, cases, tag, tcfg, jobs=8):
    """cases: list of script-line lists (one execution each, without 'reset').
    -> list of (events, first mismatching event index or None) per case, TLC being the judge"""
    if not cases:
        return []
    total = sum(len(x) + 1 for x in cases)
    parts = vlib.chunks(cases, max(1, min(jobs, total // 6000)))
    traces = []
    for i, part in enumerate(parts):
        sp = os.path.join(c.build_dir, "s_%s_%d.txt" % (tag, i))
        tp = os.path.join(c.build_dir, "t_%s_%d.ndjson" % (tag, i))
        vlib.write_lines(sp, [l for case in part for l in ["reset"] + case])
        rc, out = vlib.run_harness(exe, [sp, tp])
        if rc != 0:
            raise vlib.ToolFailure("csc harness failed rc=%d: %s" % (rc, out[-2000:]))
        traces.append(tp)
    verdicts = vlib.validate_parallel("Csc", "CscTrace.tla", tcfg, traces)
    res = []
    for tp, part in zip(traces, parts):
        v = verdicts[tp]
        execs = vlib.split_executions(tp)
        if len(execs) != len(part):
            raise vlib.ToolFailure("csc harness: %d executions recorded, %d expected (%s)" % (len(execs), len(part), tp))
        c.add_traces(len(execs), v.events)
        mm = sorted(v.mismatch_lines)
        for first, evs in execs:
            hit = [ln - first for ln in mm if first <= ln < first + len(evs)]
            res.append((evs, hit[0] if hit else None))
            for e in evs:
                c.extra["events_by_action"][e["e"]] = c.extra["events_by_action"].get(e["e"], 0) + 1
    return res


def judge(c, exe, variant, cases, tag, tcfg):
    res = run_cases(c, exe, cases, tag, tcfg, jobs=8 if c.quick else 24)
    fails = [_minimise.Failure(ops, evs, k) for ops, (evs, k) in zip(cases, res) if k is not None]
    c.extra["rejected_executions"] = c.extra.get("rejected_executions", 0) + len(fails)
    if not fails:
        return
    n = [0]

    def batch(cands):
        n[0] += 1
        return run_cases(c, exe, cands, "min_%s_%d" % (tag, n[0]), tcfg, jobs=4)

    for sig, ops, evs, members in _minimise.attribute(fails, batch, classify, sig_of):
        what = ("CSC server (variant %d): step %s is not a step of the control point model after %s (%d executions)"
                % (variant, json.dumps(evs[-1], separators=(",", ":")), ops[:-1], len(members)))
        for _ in members:
            c.finding(sig, what, {"variant": variant, "ops": ops})


def run(c):
    c.assumptions += ["one connection; the client does not switch the control point's indications off while a procedure is in progress",
                      "the application calls confirm_cumulative_wheel_revolutions exactly once per set_cumulative_wheel_revolutions callback",
                      "'Procedure Already In Progress' is ATT error 0x80 (CSCS) or 0xFE (Core Specification Supplement, used by Bluetoe)",
                      "liveness is decided on the model; on the code every execution ends with a drain of at most 4 poll rounds"]
    c.extra["events_by_action"] = {}
    tcfg = vlib.write_cfg(c, "trace.cfg", TRACE_CFG)
    pool = ThreadPoolExecutor(6)
    builds = [pool.submit(vlib.build, c, "csc_%d" % v, ["csc/csc_harness.cpp"], defines=["CSC_VARIANT=%d" % v]) for v in VARIANTS]
    if c.replay:
        return replay(c, [b.result() for b in builds], tcfg)
    # 1. design level: safety exhaustively (all opcodes x lengths x results), liveness under fairness
    errs = "{4,254}" if c.quick else "{1,4,128,253,254}"
    mc = vlib.write_cfg(c, "mc.cfg", BASE + "CONSTANTS Errors = %s  MaxAcc = 3\nSPECIFICATION BSpec\n"
                        "INVARIANTS TypeOK PaipOnlyWhileAwaiting AcceptedWhenIdle RejectedWhileAwaiting RejectedChangesNothing OneResponseEach\n"
                        "CHECK_DEADLOCK FALSE\n" % errs)
    f_mc = pool.submit(vlib.model_check, c, "Csc", "Csc.tla", mc, workers=2)
    f_live = pool.submit(vlib.model_check, c, "Csc", "Csc.tla", "MCLive.cfg", workers=2, coverage=False)
    # 2. behaviours
    d_full, d_red = (2, 3) if c.quick else (3, 4)
    nsim, dsim = (20, 10) if c.quick else (100, 14)
    f_full = pool.submit(vlib.generate, c, "Csc", "CscGen.tla", gen_cfg(c, "gen_full.cfg", d_full, "full", False), workers=2)
    f_red = pool.submit(vlib.generate, c, "Csc", "CscGen.tla", gen_cfg(c, "gen_red.cfg", d_red, "reduced", False), workers=4)
    sim = vlib.generate(c, "Csc", "CscGen.tla", gen_cfg(c, "gen_sim.cfg", dsim, "full", True),
                        simulate=nsim, depth=dsim + 2, seed=c.seed, workers=4)[:4 * nsim]
    full, red = f_full.result(), f_red.result()
    c.exhaustive = True
    c.extra["behaviours"] = {"full_alphabet_depth_%d" % d_full: len(full), "reduced_alphabet_depth_%d" % d_red: len(red),
                             "random_depth_%d" % dsim: len(sim)}
    c.extra["rule"] = ("behaviours are enumerated by TLC from CscGen.tla (BFS: every history of length <= D, each from the "
                       "unconfigured and from the configured server; -simulate for the deep ones); python only adds the parameter "
                       "bytes of a write (1,0,0,0,0 truncated to the length) and the final drain")
    c.sample({"behaviour": full[len(full) // 2]})
    c.sample({"behaviour": red[-1]})
    c.sample({"behaviour": sim[0]})
    exes = [b.result() for b in builds]
    f_mc.result()
    f_live.result()
    for v, exe in zip(VARIANTS, exes):
        behs = (full if v == 0 else full[::2]) + sim + (red if v == 0 else red[::8])
        judge(c, exe, v, [script_of(b) for b in behs], "v%d" % v, tcfg)
    pool.shutdown()
    missing = [a for a in ("Reset", "cccd", "write", "appconfirm", "output", "confirm", "drain") if not c.extra["events_by_action"].get(a)]
    if missing:
        raise vlib.ToolFailure("vacuous: trace actions never recorded: %s" % missing)


def replay(c, exes, tcfg):
    case = json.load(open(c.replay))["case"]
    exe = exes[VARIANTS.index(case["variant"])]
    (evs, k), = run_cases(c, exe, [case["ops"]], "replay", tcfg)
    c.sample(evs)
    if k is not None:
        sig = sig_of([classify(e) for e in evs[1:k + 1]])
        c.finding(sig, "replayed case rejected at event %d: %s" % (k, evs[k]), case)
    else:
        c.note("replayed case is accepted by the model")
