"""C31 - L2CAP channel multiplexing and signaling channel are well behaved.

spec/L2cap/L2cap.tla        property-level model of l2cap<> (delivery by CID, length check, replies, output buffers)
                            and of the LE signaling channel (request / response matching / Command Reject); model checked
spec/L2cap/L2capGen.tla     generator: signaling command sequences, frame grids and operation sequences for the mux
spec/L2cap/L2capTrace.tla   trace validation of the recorded calls of the real classes
harness/l2cap               real bluetoe::details::l2cap<stub link layer, stub channel 4, real signaling_channel<>, stub
                            channel 6> (mode mux) and the real signaling_channel<> alone (mode sig)
"""
import json
import os

import vlib

PROPS = ["C31"]
META = {"C31": {
    "text": "TLC model checks the multiplexer/signaling model (delivery iff header complete, length field consistent and "
            "CID configured; reply on the same CID, consistent length, fits the allocated buffer; no buffer -> not "
            "consumed and no effect; request emitted exactly once; only a matching response completes; identifiers "
            "non-zero and advancing 255 -> 1; Command Reject echoes a non-zero identifier). TLC generates all signaling "
            "command sequences (<= 5 operations from idle/queued/transmitted), the identifier wrap cycle, the frame grid "
            "(length field 0/n-5/n-4/n-3/65535 x CIDs 4,5,6,7,0x40 x buffer sizes x reply sizes) and random operation "
            "sequences; they are executed on the real l2cap<> with recording stub channels plus the real "
            "signaling_channel<>, and every recorded call (result, deliveries, committed frames, observed signaling "
            "state) is validated by TLC against the model.",
    "note": "stub link layer with the allocate/commit contract of link_layer (no reservation); allocator variants: none, "
            "too small, exactly the requested size, requested + 4 (what link_layer returns), larger; signaling state is "
            "observed through the public interface on a copy of the channel; end-to-end through link_layer is left to "
            "the link layer checks; trusted: TLC, harness/l2cap, g++/ASan.",
    "technique": "TLA+ model checking (TLC) + TLC-generated behaviours replayed on the real classes + TLC trace validation",
    "design_ref": "5.8"}}

MAXMTU = 65
BASE = ("CONSTANTS StubCids = {4, 6}  SigCid = 5  MaxMtu = %d\n"
        "CONSTANTS MCFrames = {}  MCCmds = {}  MCAllocs = {}  MCData = {}\n" % MAXMTU)
TRACE_CFG = BASE + "SPECIFICATION TSpec\nINVARIANTS TypeOK\nCHECK_DEADLOCK FALSE\n"


def gen_cfg(c, name, mode, k, allocs=(0, 65, 69), rmodes=(1, 2), lens=(0, 3, 4, 5, 10)):
    s = lambda xs: "{" + ", ".join(str(x) for x in xs) + "}"
    return vlib.write_cfg(c, name, BASE + 'CONSTANTS Mode = "%s"  K = %d  GAllocs = %s  GRmodes = %s  GLens = %s\n'
                          "SPECIFICATION GSpec\nINVARIANTS Emit\nCHECK_DEADLOCK FALSE\n" % (mode, k, s(allocs), s(rmodes), s(lens)))


def dedupe(behs):
    seen, out = set(), []
    for b in behs:
        key = json.dumps(b)
        if key not in seen:
            seen.add(key)
            out.append(b)
    return out


def one_per_prefix(behs):
    """TLC -simulate evaluates the Emit invariant on every candidate successor of the last step, so one random
    walk is printed once per possible last operation: keep one behaviour per walk (rotating through the last ops)"""
    groups, order = {}, []
    for b in behs:
        key = json.dumps(b[:-1])
        if key not in groups:
            groups[key] = []
            order.append(key)
        groups[key].append(b)
    return [groups[k][i % len(groups[k])] for i, k in enumerate(order)]


def script_of(b):
    return ["reset"] + [" ".join(str(x) for x in op) for op in b]


# ------------------------------------------------------------------------------------------------
# signatures: action + argument classes + what the implementation did (no oracle: only describes the event)
# ------------------------------------------------------------------------------------------------
def cmd_class(cmd, last_req_id):
    if len(cmd) < 1:
        return "empty"
    code = cmd[0]
    ident = cmd[1] if len(cmd) >= 2 else None
    wf = len(cmd) >= 4 and cmd[2] + 256 * cmd[3] == len(cmd) - 4
    if code == 0x13:
        if len(cmd) < 6:
            return "resp_trunc"
        if len(cmd) > 6 or not (cmd[2] == 2 and cmd[3] == 0):
            return "resp_badlen"
        return "resp_id0" if ident == 0 else ("resp_match" if ident == last_req_id else "resp_wrongid")
    kind = "reject" if code == 0x01 else "cmd"
    if ident is None:
        return kind + "_noident"
    if ident == 0:
        return kind + "_id0"
    return kind + ("" if wf else "_malformed")


def reply_class(reply, cmd):
    if not reply:
        return "none"
    if len(reply) == 6 and reply[0] == 1 and len(cmd) >= 2 and reply[1] == cmd[1] and reply[2:] == [2, 0, 0, 0]:
        return "reject_echo"
    return "other"


def alloc_class(a):
    return "none" if a == 0 else "small" if a < MAXMTU else "exact" if a == MAXMTU else "ll" if a == MAXMTU + 4 else "big"


def frame_class(f):
    if len(f) < 4:
        return "short"
    if f[0] + 256 * f[1] != len(f) - 4:
        return "badlen"
    cid = f[2] + 256 * f[3]
    return "sig" if cid == 5 else "stub" if cid in (4, 6) else "unknown"


def signature(mode, evs, i):
    ev = evs[i]
    e = ev["e"]
    prev = next((x["st"] for x in reversed(evs[:i]) if "st" in x), "idle")
    last_req = None
    for x in evs[:i]:
        for o in ([x.get("out")] if x.get("e") == "SigOut" else x.get("outs", []) if x.get("e") == "Pump" else []):
            p = o if x.get("e") == "SigOut" else o[4:]
            if p and len(p) >= 2 and p[0] == 0x12:
                last_req = p[1]
    trans = "%s->%s" % (prev, ev.get("st"))
    if e == "SigIn":
        return "sigch:in:%s:%s:reply=%s:via=sig" % (cmd_class(ev["cmd"], last_req), trans, reply_class(ev["reply"], ev["cmd"]))
    if e == "Input":
        fc = frame_class(ev["frame"])
        calls = ev.get("calls", [])
        if fc == "sig" and len(calls) == 1 and calls[0]["cap"] + 4 <= ev["alloc"] and ev["r"]:
            # delivered properly to the signaling channel: describe it like the direct case
            return "sigch:in:%s:%s:reply=%s:via=mux" % (cmd_class(calls[0]["in"], last_req), trans,
                                                      reply_class(calls[0]["reply"], calls[0]["in"]))
        cap = calls[0]["cap"] if calls else None
        capc = "-" if cap is None else "alloc-4" if cap == ev["alloc"] - 4 else "alloc" if cap == ev["alloc"] else \
            ">alloc-4" if cap > ev["alloc"] - 4 else "<alloc-4"
        return "mux:Input:alloc=%s:frame=%s:r=%s:calls=%d:cap=%s:outs=%d" % (alloc_class(ev["alloc"]), fc, ev["r"],
                                                                            len(calls), capc, len(ev.get("outs", [])))
    if e == "Pump":
        return "mux:Pump:alloc=%s:nbuf=%s:outs=%d:%s" % (alloc_class(ev["alloc"]), min(ev["nbuf"], 3), len(ev["outs"]), trans)
    if e == "SigOut":
        return "sigch:out:%s:emitted=%s" % (trans, bool(ev.get("out")))
    if e == "Req":
        return "sigch:req:%s:r=%s" % (trans, ev.get("r"))
    return "%s:%s" % (mode, e)


# ------------------------------------------------------------------------------------------------
def run_and_validate(c, exe, mode, behs, nfiles):
    scripts = [script_of(b) for b in behs]
    parts = vlib.chunks(scripts, nfiles)
    traces = []
    for i, part in enumerate(parts):
        sp = os.path.join(c.build_dir, "s_%s_%d.txt" % (mode, i))
        tp = os.path.join(c.build_dir, "t_%s_%d.ndjson" % (mode, i))
        vlib.write_lines(sp, [l for ex in part for l in ex])
        rc, out = vlib.run_harness(exe, [mode, sp, tp])
        if rc != 0:
            raise vlib.ToolFailure("harness failed rc=%d: %s" % (rc, out[-2000:]))
        traces.append(tp)
    tcfg = vlib.write_cfg(c, "trace.cfg", TRACE_CFG)
    verdicts = vlib.validate_parallel("L2cap", "L2capTrace.tla", tcfg, traces, timeout=3000)
    counts = c.extra.setdefault("events_by_action", {})
    classes = c.extra.setdefault("signaling_input_classes", {})
    for part, tp in zip(parts, traces):
        v = verdicts[tp]
        execs = vlib.split_executions(tp)
        crashed = bool(execs) and execs[-1][1][-1].get("e") == "Crash"
        if len(execs) != len(part) and not (crashed and len(execs) < len(part)):
            raise vlib.ToolFailure("%s: %d executions recorded for %d scripts" % (tp, len(execs), len(part)))
        c.add_traces(len(execs), v.events)
        for _, evs in execs:
            for ev in evs:
                counts[ev["e"]] = counts.get(ev["e"], 0) + 1
                if ev["e"] == "SigIn":
                    k = cmd_class(ev["cmd"], None)
                    classes[k] = classes.get(k, 0) + 1
        if len(c.samples) < 5:
            c.sample({"mode": mode, "script": part[len(part) // 2], "trace": execs[len(part) // 2][1][:5]})
        for ln in v.mismatch_lines:
            k = max(i for i, e in enumerate(execs) if e[0] <= ln)
            first, evs = execs[k]
            ev = evs[ln - first]
            c.finding(signature(mode, evs, ln - first),
                      "%s: recorded call %s is not a step of the L2cap model; preceding: %s"
                      % (mode, json.dumps(ev)[:700], json.dumps(evs[max(0, ln - first - 2):ln - first])[:700]),
                      {"mode": mode, "script": part[k], "event_index": ln - first})


def run(c):
    c.assumptions += [
        "link layer contract: allocate_l2cap_output_buffer(size) returns {0, nullptr} or a buffer of at least `size` "
        "octets, without reservation; commit consumes it (as bluetoe::link_layer::link_layer does)",
        "channels are offered at least 23 octets of output capacity (signaling_channel asserts >= 12)",
        "stub channels write at most the capacity they are offered",
        "a Command Reject / unaccepted response may be discarded silently or answered with Command Reject (Core spec "
        "Vol 3 Part A 4: responses with unknown identifier are silently discarded; property text: rejected)"]
    # (also in replay mode, so that the evidence file of a replay run is complete)
    vlib.model_check(c, "L2cap", "L2cap.tla", "MC.cfg" if c.quick or c.replay else "MCfull.cfg", workers=4)
    exe = vlib.build(c, "l2cap_h", ["l2cap/l2cap_harness.cpp"])
    if c.replay:
        return replay(c, exe)
    q = c.quick
    # --- signaling channel alone
    sig = vlib.generate(c, "L2cap", "L2capGen.tla", gen_cfg(c, "gen_sig.cfg", "sig", 2 if q else 3), workers=4)
    nb_sig = len(dedupe(sig))
    nsim, ksim = (200, 8) if q else (3000, 14)
    sig += one_per_prefix(vlib.generate(c, "L2cap", "L2capGen.tla", gen_cfg(c, "sim_sig.cfg", "sig", ksim),
                                        simulate=max(1, nsim // 4), depth=ksim + 4, seed=c.seed, workers=4, timeout=2400))
    wrap = vlib.generate(c, "L2cap", "L2capGen.tla", gen_cfg(c, "gen_wrap.cfg", "wrap", 3 * 257 + 4), workers=1)
    sig = dedupe(sig + wrap)
    c.extra["signaling"] = {"bfs_behaviours": nb_sig, "bfs_ops_after_prefix": 2 if q else 3, "random": nsim,
                            "random_ops": ksim, "wrap_cycle_ops": len(wrap[0]), "alphabet": "19 commands + request + output"}
    c.sample({"signaling_behaviour": sig[len(sig) // 3]})
    run_and_validate(c, exe, "sig", sig, 4 if q else 8)
    # --- multiplexer
    if q:
        mux = vlib.generate(c, "L2cap", "L2capGen.tla", gen_cfg(c, "gen_mux.cfg", "mux", 1, (0, 64, 65, 69), (1, 2)), workers=4)
        nsim, ksim = 40, 10
    else:
        mux = vlib.generate(c, "L2cap", "L2capGen.tla",
                            gen_cfg(c, "gen_mux.cfg", "mux", 1, (0, 64, 65, 69, 85), (0, 1, 2), (0, 1, 2, 3, 4, 5, 6, 10, 27, 69)), workers=4)
        mux += vlib.generate(c, "L2cap", "L2capGen.tla", gen_cfg(c, "gen_mux2.cfg", "mux", 2, (69,), (1,), (4, 5)), workers=4)
        nsim, ksim = 400, 12
    nb_mux = len(dedupe(mux))
    mux += one_per_prefix(vlib.generate(c, "L2cap", "L2capGen.tla", gen_cfg(c, "sim_mux.cfg", "mux", ksim, (0, 65, 69, 85), (0, 1, 2), (0, 4, 5, 12)),
                                        simulate=max(1, nsim // 4), depth=ksim + 4, seed=c.seed, workers=4, timeout=2400))
    mux = dedupe(mux)
    c.extra["mux"] = {"bfs_behaviours": nb_mux, "random": nsim, "random_ops": ksim,
                      "grid": "frame length x length field {0,n-5,n-4,n-3,65535} x CID {4,5,6,7,0x40} x buffer {none,too small,"
                              "exact,+4,+20} x reply {none,1,full} from signaling idle/queued/transmitted"}
    run_and_validate(c, exe, "mux", mux, 4 if q else 8)
    c.exhaustive = True      # the bounded generator spaces were enumerated completely and every behaviour was replayed


def replay(c, exe):
    case = json.load(open(c.replay))["case"]
    mode = case["mode"]
    sp = vlib.write_lines(os.path.join(c.build_dir, "replay.txt"), case["script"])
    tp = os.path.join(c.build_dir, "replay.ndjson")
    vlib.run_harness(exe, [mode, sp, tp])
    tcfg = vlib.write_cfg(c, "trace.cfg", TRACE_CFG)
    v = vlib.validate_trace("L2cap", "L2capTrace.tla", tcfg, tp)
    evs = vlib.read_ndjson(tp)
    c.add_traces(1, v.events)
    c.sample(evs[:8])
    for ln in v.mismatch_lines:
        first = max(i for i, e in enumerate(evs[:ln]) if e.get("e") == "Reset")
        c.finding(signature(mode, evs[first:], ln - 1 - first), "replayed case rejected at event %d: %s" % (ln, json.dumps(evs[ln - 1])[:700]), case)
