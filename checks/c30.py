"""C30 - the interrupt-safe ring is a lossless FIFO under any interleaving.

spec/Ring/Ring.tla        property level: linearizable bounded FIFO (subset construction)
spec/Ring/RingImpl.tla    implementation-shaped model, one step per shared access; invariant Linearizable
spec/Ring/RingGen.tla     schedule generator (all interleavings / random ones)
spec/Ring/RingTrace.tla   trace validation of the real call/return history
harness/ring + hook H1    real ring<Cap,int>, every shared access is a scheduler step
"""
import json
import os
import vlib

PROPS = ["C30"]
META = {"C30": {
    "text": "TLC proves Linearizable/Fifo on the access-granular model of try_push/try_pop for all interleavings "
            "(Cap 1-3, up to 4+4 calls); every interleaving of the bounded generator model (all of them for small "
            "bounds, random ones beyond) is replayed as a schedule on the real ring through hook H1 (each atomic "
            "load/store and data_[] access is one scheduler step) and the recorded call/return history is "
            "validated by TLC against the linearizable-FIFO specification.",
    "note": "sequentially consistent atomics (the code uses the default memory order) - weak-memory reorderings and "
            "compiler-level splitting of an access are not modelled; bounded call counts and capacities; trusted: "
            "TLC, harness/common/sched.hpp, harness/ring.",
    "technique": "TLA+ model checking of an access-level model + TLC-generated schedules replayed on the real class "
                 "via a deterministic scheduler + TLC trace validation (linearizability)",
    "design_ref": "5.3"}}

CTX = {"P": 0, "C": 1}


def cfg_text(cap, npush, npop, spec, inv):
    return ("CONSTANTS Cap = %d  NPush = %d  NPop = %d\nSPECIFICATION %s\nINVARIANTS %s\nCHECK_DEADLOCK FALSE\n"
            % (cap, npush, npop, spec, inv))


def run_schedules(c, exe, cap, npush, npop, behs, tag):
    """replay behaviours (lists of [ctx, kind]); -> (#violations found)"""
    tcfg = vlib.write_cfg(c, "trace_%d.cfg" % cap, "CONSTANTS Cap = %d\nSPECIFICATION TSpec\nCHECK_DEADLOCK FALSE\n" % cap)
    nparts = max(1, min(8, sum(len(b) for b in behs) // 5000))
    traces, parts = [], vlib.chunks(behs, nparts)
    def one(ip):
        i, part = ip
        sp = os.path.join(c.build_dir, "s_%s_%d.txt" % (tag, i))
        tp = os.path.join(c.build_dir, "t_%s_%d.ndjson" % (tag, i))
        lines = []
        for b in part:
            lines.append("reset %d %d" % (npush, npop))
            lines += ["s %d" % CTX[s[0]] for s in b]
        vlib.write_lines(sp, lines)
        rc, out = vlib.run_harness(exe, [sp, tp])
        if rc != 0:
            raise vlib.ToolFailure("ring harness rc=%d %s" % (rc, out[-2000:]))
        # the access events only serve the model-drift comparison; TLC validates the call/return history
        vlib.write_lines(tp + ".hist", [e for e in vlib.read_ndjson(tp) if e["e"] != "Acc"])
        return tp
    from concurrent.futures import ThreadPoolExecutor
    with ThreadPoolExecutor(8) as ex:
        traces = list(ex.map(one, enumerate(parts)))
    verdicts = vlib.validate_parallel("Ring", "RingTrace.tla", tcfg, [t + ".hist" for t in traces])
    drift = 0
    for tp, part in zip(traces, parts):
        v = verdicts[tp + ".hist"]
        execs = vlib.split_executions(tp)
        hexecs = vlib.split_executions(tp + ".hist")
        c.add_traces(len(execs), v.events)
        for (first, evs), b in zip(execs, part):
            acc = [[e["p"], e["k"]] for e in evs if e["e"] == "Acc"][:len(b)]
            if acc != [list(x) for x in b]:
                drift += 1
                if drift == 1:
                    c.note("MODEL-DRIFT: access sequence of the code differs from RingImpl: model %s code %s" % (b, acc))
        for ln in v.mismatch_lines:
            k = max(i for i, e in enumerate(hexecs) if e[0] <= ln)
            first, hevs = hexecs[k]
            evs = execs[k][1]
            ev = hevs[ln - first]
            hist = hevs[:ln - first + 1]
            sched = [CTX[e["p"]] for e in evs if e["e"] == "Acc"]
            sig = "cap%d:%s:r=%s" % (cap, ev["e"], ev.get("r"))
            c.finding(sig, "ring<%d>: history %s is not linearizable w.r.t. a bounded FIFO" % (cap, hist),
                      {"cap": cap, "npush": npush, "npop": npop, "schedule": sched, "history": hist})
    c.extra["model_drift_executions"] = c.extra.get("model_drift_executions", 0) + drift
    if behs:
        c.sample({"cap": cap, "schedule": behs[0]})


def run(c):
    c.assumptions += ["sequentially consistent atomic loads/stores (default std::memory_order of the code)",
                      "one C++ access to a shared object = one indivisible step"]
    exes = {cap: vlib.build(c, "ring_%d" % cap, ["ring/ring_harness.cpp"], defines=["CAP=%d" % cap]) for cap in (1, 2, 3)}
    if c.replay:
        case = json.load(open(c.replay))["case"]
        beh = [["P" if s == 0 else "C", "?"] for s in case["schedule"]]
        run_schedules(c, exes[case["cap"]], case["cap"], case["npush"], case["npop"], [beh], "replay")
        return
    # 1. design level: all interleavings of the access-level model
    mc = [(1, 3, 3), (2, 4, 4)] if c.quick else [(1, 4, 4), (2, 4, 4), (3, 4, 4), (2, 5, 5)]
    for cap, npush, npop in mc:
        cfg = vlib.write_cfg(c, "mc_%d_%d.cfg" % (cap, npush), cfg_text(cap, npush, npop, "Spec", "Linearizable Fifo Bounded") + "VIEW View\n")
        vlib.model_check(c, "Ring", "RingImpl.tla", cfg, workers=8)
    # 2. all interleavings for the small bounds, replayed on the real ring
    exh = [(1, 2, 2), (2, 2, 2)] if c.quick else [(1, 2, 2), (2, 2, 2), (1, 3, 2), (2, 3, 2), (1, 2, 3)]
    for cap, npush, npop in exh:
        cfg = vlib.write_cfg(c, "gen_%d_%d_%d.cfg" % (cap, npush, npop), cfg_text(cap, npush, npop, "GSpec", "Emit"))
        behs = vlib.generate(c, "Ring", "RingGen.tla", cfg, workers=8)
        run_schedules(c, exes[cap], cap, npush, npop, behs, "exh_%d_%d_%d" % (cap, npush, npop))
    c.exhaustive = True
    # 3. random interleavings for larger bounds
    sims = [(2, 4, 4, 300), (3, 5, 5, 300)] if c.quick else [(1, 5, 5, 4000), (2, 6, 6, 4000), (3, 8, 8, 4000)]
    for cap, npush, npop, n in sims:
        cfg = vlib.write_cfg(c, "sim_%d_%d.cfg" % (cap, npush), cfg_text(cap, npush, npop, "GSpec", "Emit"))
        behs = vlib.generate(c, "Ring", "RingGen.tla", cfg, simulate=max(1, n // 8), depth=8 * (npush + npop) + 2,
                             seed=c.seed, workers=8)[:n]
        run_schedules(c, exes[cap], cap, npush, npop, behs, "sim_%d_%d" % (cap, npush))
