"""C14 - advertising and scan response data are well formed.

spec/AdvData/AdvData.tla       the reference definition: WellFormed(bytes, buf, decl, which) as a set of named rules
spec/AdvData/AdvDataMC.tla     sanity of that oracle, exhaustive in TLC on small constants: the outputs of a family of
                               reference encoders are accepted, nine kinds of damage to them are rejected
spec/AdvData/AdvDataTrace.tla  trace validation: every recorded call of the real server must be a Call step
harness/advdata                generated server types; advertising_data(buf, n) / scan_response_data(buf, n) for every
                               n in 0..31 (+ a few larger) on an exact-size heap buffer (ASan red zone behind octet n)

The declarations (name, services, list options, appearance, connection interval range, custom / run-time data) are a
fixed corner list plus a sample seeded by VERIF_SEED, both produced by this file (plain option grid, no behaviour to
explore); the translation declaration -> `bluetoe::server<...>` and declaration -> AdvData record is format
conversion only - the oracle is evaluated by TLC.
"""
import json
import os
import random
from concurrent.futures import ThreadPoolExecutor

import vlib

PROPS = ["C14"]
META = {"C14": {
    "text": "AdvData.tla defines when an advertising / scan response payload is well formed for a declaration (fits "
            "min(buffer, 31); exactly tiled by AD structures followed only by zero octets; Flags present when >= 3 "
            "octets; name complete (0x09) or a proper prefix marked shortened (0x08); UUID lists of whole, declared "
            "UUIDs marked complete iff nothing declared is missing; name/lists absent only without room; appearance, "
            "connection interval range and user supplied structures whole or absent). TLC checks the predicate "
            "exhaustively against reference encoders and nine kinds of damage on small constants. A corner list plus "
            "a seeded sample of generated bluetoe::server<> declarations is compiled; advertising_data() and "
            "scan_response_data() are called for every buffer size 0..31 (and 32, 33, 40, 64, 100) on exact-size "
            "heap buffers under ASan/UBSan and every call is validated by TLC against the declaration.",
    "note": "declarations are sampled (corner list + seed), buffer sizes are exhaustive; for buffers > 31 octets only "
            "'fits the buffer' is demanded (outside the property's domain; the repository's own tests expect 39 octets "
            "from a 100 octet buffer); user supplied data is assumed well formed and <= 31 octets; presence of the "
            "name / UUID lists is demanded of the advertising data only; trusted: TLC, harness/advdata, the "
            "declaration-to-C++ generator in checks/advdata.py, g++/ASan.",
    "technique": "TLA+ reference definition model checked with TLC + generated server types driven over the complete "
                 "buffer-size grid + TLC trace validation",
    "design_ref": "5.1"}}

NS = list(range(0, 32)) + [32, 33, 40, 64, 100]
PER_TU = 5

# ------------------------------------------------------------------------------------------------------------------
# declarations
# ------------------------------------------------------------------------------------------------------------------
U128 = [(0x8C8B4094, 0x0DE2, 0x499F, 0xA28A, 0x4EED5BC73CA9), (0x111393DD, 0x01D2, 0x40D6, 0xA0A0, 0xE9B1A56A1191),
        (0x221393DD, 0x01D2, 0x40D6, 0xA0A0, 0xE9B1A56A1177), (0xF0E1D2C3, 0xB4A5, 0x4687, 0x9878, 0x695A4B3C2D1E)]
U16 = [0x1234, 0xABCD, 0x0102, 0x180F, 0x181A, 0xFE59, 0x00FF, 0xFF00]


def decl(**kw):
    d = {"name": None, "services": [0x1234], "gap": True, "list16": None, "list128": None, "no_list": False,
         "appearance": None, "adv_appearance": False, "range": None, "custom_adv": None, "custom_sr": None,
         "runtime_adv": False, "runtime_sr": False}
    for k in kw:
        if k not in d:
            raise KeyError(k)
    d.update(kw)
    return d


def ad(t, data):
    return [len(data) + 1, t] + list(data)


NAME31 = "The quick brown fox jumps over."
assert len(NAME31) == 31

CORNERS = [
    decl(),                                                                     # all defaults: implicit list incl. GAP
    decl(no_list=True, gap=False),                                              # flags only
    decl(name="", no_list=True),
    decl(name="X", no_list=True),
    decl(name=NAME31[:25], no_list=True),
    decl(name=NAME31[:26], no_list=True),                                       # 3 + 28 = 31: fits exactly
    decl(name=NAME31[:27], no_list=True),                                       # shortened by one character
    decl(name=NAME31[:28], no_list=True, adv_appearance=True, appearance=0x1443),
    decl(name=NAME31, no_list=True),
    decl(name=NAME31, services=[0x1234, 0xABCD], adv_appearance=True),          # the name takes all the room
    decl(name=NAME31[:20], services=[0x1234, 0xABCD, 0x0102, 0x180F], gap=False),   # truncated 16 bit list
    decl(name=NAME31[:8], services=[0x1234, U128[0], 0xABCD]),                  # no room for the 128 bit list
    decl(services=[U128[0], U128[1]], gap=False),                               # two 128 bit UUIDs never fit
    decl(services=[U128[0]], adv_appearance=True, appearance=0x0300, range=[6, 0x0C80], gap=False),  # 3+4+18+6 = 31
    decl(services=[U128[0]]),                                                   # 16 bit list = the GAP service only
    decl(services=[0x1234], list16=[0x1234, 0xABCD, 0x0102], no_list=True),
    decl(services=[0x1234, U128[1]], list16=[], list128=[U128[1]]),
    decl(services=[0x1234, U128[1]], list128=[U128[1], U128[2]], name="ab"),
    decl(services=[0x1234, 0xABCD, 0x0102, 0x180F], gap=False),                 # complete list of four
    decl(services=[0x1234, 0xABCD, 0x0102, 0x180F], name="abcdefghijklmnop"),
    decl(name="Bluetoe", services=[0x1234, 0xABCD, U128[3]], adv_appearance=True, appearance=0x00C1, range=[0x10, 0x20]),
    decl(range=[0xFFFF, 0xFFFF], no_list=True),
    decl(adv_appearance=True, no_list=True, name=NAME31[:21]),                  # default appearance 0x0000
    decl(appearance=0x0040, name="phone"),                                      # appearance declared but not advertised
    decl(custom_adv=ad(1, [6]) + ad(9, b"custom") + ad(3, [0x34, 0x12, 0xCD, 0xAB]) + ad(0xFF, [1, 2, 3, 4]),
         custom_sr=ad(9, b"in the scan response") + ad(0x0A, [4])),
    decl(custom_adv=ad(1, [6]) + ad(9, NAME31[:26].encode()), custom_sr=ad(0xFF, list(range(29)))),   # 31 octets each
    decl(custom_adv=ad(1, [6]) + ad(8, b"xy") + [0, 0, 0], custom_sr=[0, 0]),                          # early termination
    decl(custom_adv=ad(1, [6]) + ad(0x19, [0x43, 0x14]) + ad(0x12, [6, 0, 0x80, 0x0C]), runtime_adv=True,
         custom_sr=ad(7, range(16)) + ad(9, b"runtime"), runtime_sr=True),
    decl(custom_adv=ad(1, [6]), name="ignored", services=[0x1234, U128[0]]),    # custom advertising, generated scan response
    decl(custom_sr=ad(9, b"only the response is custom"), name="adv", services=[0xFE59]),
    decl(services=[], gap=True, name="no services"),
]


def random_decl(rnd):
    n16, n128 = rnd.randint(0, 4), rnd.choice([0, 0, 1, 1, 2])
    services = rnd.sample(U16, n16) + rnd.sample(U128, n128)
    rnd.shuffle(services)
    d = decl(services=services, gap=rnd.random() < 0.6 or not services)    # a server needs at least one service
    r = rnd.random()
    if r < 0.8:
        ln = rnd.choice([0, 1, 2, 5, 8, 12, 16, 20, 22, 24, 25, 26, 27, 28, 29, 30, 31, rnd.randint(0, 31)])
        d["name"] = "".join(chr(rnd.randint(0x21, 0x7E)) for _ in range(ln))
    r = rnd.random()
    if r < 0.25:
        d["no_list"] = True
    if rnd.random() < 0.3:
        d["list16"] = rnd.sample(U16, rnd.randint(0, 4))
    if rnd.random() < 0.25:
        d["list128"] = rnd.sample(U128, rnd.randint(0, 2))
    if rnd.random() < 0.4:
        d["appearance"] = rnd.choice([0x0040, 0x00C1, 0x0300, 0x1443, 0xFFFF])
    d["adv_appearance"] = rnd.random() < 0.4
    if rnd.random() < 0.35:
        lo = rnd.randint(6, 0x0C80)
        d["range"] = rnd.choice([[0xFFFF, 0xFFFF], [lo, rnd.randint(lo, 0x0C80)], [lo, 0xFFFF], [0xFFFF, lo]])

    def custom():
        out = []
        while True:
            s = ad(rnd.choice([1, 8, 9, 0x0A, 0x16, 0xFF, 3, 7]), [rnd.randint(0, 255) for _ in range(rnd.choice([0, 1, 2, 4, 7, 12, 16]))])
            if len(out) + len(s) > 31:
                break
            out += s
            if rnd.random() < 0.3:
                break
        return out or ad(1, [6])
    if rnd.random() < 0.2:
        d["custom_adv"], d["runtime_adv"] = custom(), rnd.random() < 0.4
    if rnd.random() < 0.3:
        d["custom_sr"], d["runtime_sr"] = custom(), rnd.random() < 0.4
    return d


def uuid128_le(u):
    a, b, c, dd, e = u
    be = a.to_bytes(4, "big") + b.to_bytes(2, "big") + c.to_bytes(2, "big") + dd.to_bytes(2, "big") + e.to_bytes(6, "big")
    return list(reversed(be))


def le16(v):
    return [v & 0xFF, v >> 8]


def norm(d):
    """the declaration as the record AdvData.tla talks about (pure format conversion)"""
    s16 = [u for u in d["services"] if isinstance(u, int)]
    s128 = [u for u in d["services"] if not isinstance(u, int)]
    implicit16 = d["list16"] is None and not d["no_list"]
    implicit128 = d["list128"] is None and not d["no_list"]
    u16 = d["list16"] if d["list16"] is not None else (s16 if implicit16 else [])
    u128 = d["list128"] if d["list128"] is not None else (s128 if implicit128 else [])
    rng = d["range"] or [0, 0]
    return {
        "advMode": "custom" if d["custom_adv"] is not None else "auto",
        "srMode": "custom" if d["custom_sr"] is not None else "auto",
        "hasName": d["name"] is not None,
        "name": [ord(ch) for ch in (d["name"] or "")],
        "uuid16": [le16(u) for u in u16],
        "opt16": [le16(0x1800)] if implicit16 and d["gap"] else [],
        "uuid128": [uuid128_le(tuple(u)) for u in u128],
        "advAppearance": bool(d["adv_appearance"]),
        "appearance": le16(d["appearance"] or 0),
        "hasRange": d["range"] is not None,
        "range": le16(rng[0]) + le16(rng[1]),
        "customAdv": list(d["custom_adv"] or []),
        "customSr": list(d["custom_sr"] or []),
    }


def cpp_uuid(u, what="service_uuid"):
    if isinstance(u, int):
        return "bluetoe::%s16< 0x%04X >" % (what, u)
    return "bluetoe::%s< 0x%08X, 0x%04X, 0x%04X, 0x%04X, 0x%012X >" % ((what,) + tuple(u))


def cpp(d, k):
    """C++ for declaration number k: namespace dK { ...; struct decl { typedef ... server_t; static void setup(server_t&); }; }"""
    ns = "d%d" % k
    pre, opts, setup = [], [], []
    for i, u in enumerate(d["services"]):
        opts.append("bluetoe::service< %s, bluetoe::characteristic< bluetoe::characteristic_uuid16< 0x%04X >, "
                    "bluetoe::fixed_uint8_value< 0x%02X > > >" % (cpp_uuid(u), 0x2B00 + i, 0x40 + i))
    if not d["gap"]:
        opts.append("bluetoe::no_gap_service_for_gatt_servers")
    if d["name"] is not None:
        pre.append("static constexpr char name[] = { %s };" % ", ".join([str(ord(ch)) for ch in d["name"]] + ["0"]))
        opts.append("bluetoe::server_name< name >")
    if d["appearance"] is not None:
        opts.append("bluetoe::device_appearance< 0x%04X >" % d["appearance"])
    if d["adv_appearance"]:
        opts.append("bluetoe::advertise_appearance")
    if d["list16"] is not None:
        opts.append("bluetoe::list_of_16_bit_service_uuids< %s >" % ", ".join(cpp_uuid(u) for u in d["list16"]))
    if d["list128"] is not None:
        opts.append("bluetoe::list_of_128_bit_service_uuids< %s >" % ", ".join(cpp_uuid(tuple(u)) for u in d["list128"]))
    if d["no_list"]:
        opts.append("bluetoe::no_list_of_service_uuids")       # after the explicit lists: covers what is not listed
    if d["range"] is not None:
        opts.append("bluetoe::peripheral_connection_interval_range< 0x%04X, 0x%04X >" % tuple(d["range"]))
    for key, rt, opt, rtopt, setter, var in (
            ("custom_adv", "runtime_adv", "custom_advertising_data", "runtime_custom_advertising_data",
             "set_runtime_custom_advertising_data", "cadv"),
            ("custom_sr", "runtime_sr", "custom_scan_response_data", "runtime_custom_scan_response_data",
             "set_runtime_custom_scan_response_data", "csr")):
        if d[key] is not None:
            pre.append("static const std::uint8_t %s[] = { %s };" % (var, ", ".join(str(b) for b in d[key])))
            if d[rt]:
                opts.append("bluetoe::%s" % rtopt)
                setup.append("s.%s( %s, sizeof( %s ) );" % (setter, var, var))
            else:
                opts.append("bluetoe::%s< sizeof( %s ), %s >" % (opt, var, var))
    js = json.dumps(norm(d), separators=(",", ":"))
    lines = ["namespace %s {" % ns] + ["    " + p for p in pre]
    lines += ["    struct decl {", "        typedef bluetoe::server<"]
    lines += ["            " + o + ("," if i + 1 < len(opts) else "") for i, o in enumerate(opts)]
    lines += ["        > server_t;", "        static void setup( server_t& s ) { (void)s; %s }" % " ".join(setup), "    };", "}"]
    lines += ["VERIF_ADVDATA_DECL( %d, %s::decl, %s )" % (k, ns, json.dumps(js)), ""]
    return "\n".join(lines)


# ------------------------------------------------------------------------------------------------------------------
# running
# ------------------------------------------------------------------------------------------------------------------
def build_group(c, tag, decls_with_ids):
    hpp = os.path.join(c.build_dir, "decls_%s.hpp" % tag)
    with open(hpp, "w") as f:
        f.write("// generated by checks/advdata.py\n")
        for k, d in decls_with_ids:
            f.write(cpp(d, k))
    return vlib.build(c, "advdata_%s" % tag, ["advdata/advdata_harness.cpp"], defines=['ADVDATA_DECLS="%s"' % hpp])


def run_script(exe, tag, lines, build_dir):
    """run the script; a crashing call ends the process, the rest of the script is continued by a fresh one.
    -> (trace path, number of harness processes). Crash events are annotated with the call that crashed."""
    tp = os.path.join(build_dir, "t_%s.ndjson" % tag)
    out_events, rest, runs = [], list(lines), 0
    while rest:
        runs += 1
        sp = vlib.write_lines(os.path.join(build_dir, "s_%s_%d.txt" % (tag, runs)), rest)
        part = os.path.join(build_dir, "t_%s_%d.ndjson" % (tag, runs))
        rc, out = vlib.run_harness(exe, [sp, part])
        evs = vlib.read_ndjson(part) if os.path.exists(part) else []
        done = sum(1 for e in evs if e["e"] in ("adv", "sr"))
        crashed = [e for e in evs if e["e"] == "Crash"]
        if crashed:
            k, w, n = rest[done].split()
            crashed[0].update({"id": int(k), "w": "sr" if w == "1" else "adv", "n": int(n)})
            if not any(e["e"] == "Reset" for e in evs):
                raise vlib.ToolFailure("harness crashed before the first event: %s" % out[-2000:])
            done += 1
        elif rc != 0 or done != len(rest):
            raise vlib.ToolFailure("harness failed rc=%d after %d of %d calls: %s" % (rc, done, len(rest), out[-2000:]))
        out_events += evs
        rest = rest[done:]
        os.remove(sp)
        os.remove(part)
    vlib.write_lines(tp, out_events)
    return tp, runs


def signature(ev, why, nd):
    w = ev["w"] if ev["e"] == "Crash" else ev["e"]
    mode = nd["advMode"] if w == "adv" else nd["srMode"]
    if ev["e"] == "Crash":
        return "%s:%s:crash:n=%d" % (w, mode, ev["n"])
    if mode == "custom":
        ncls = "n<size" if ev["n"] < len(nd["customAdv"] if w == "adv" else nd["customSr"]) else "n>=size"
    else:
        ncls = "n<=31" if ev["n"] <= 31 else "n>31"
    return "%s:%s:%s:%s" % (w, mode, "+".join(sorted(why)) or "rejected", ncls)


def whys(verdict):
    res = {}
    for line in verdict.out.splitlines():
        line = line.strip()
        if line.startswith('<<"WHY"'):
            t = vlib.parse_tla_value(line)
            if t:
                res[int(t[1])] = [str(x) for x in t[2]]
    return res


def ad_types(out):
    """AD types of an accepted payload (TLC has already established that it is tiled)"""
    res, i = [], 0
    while i < len(out) and out[i] != 0:
        res.append(out[i + 1])
        i += out[i] + 1
    return res


def validate_and_report(c, traces, decl_of, counts):
    tcfg = os.path.join(vlib.SPEC, "AdvData", "Trace.cfg")
    verdicts = vlib.validate_parallel("AdvData", "AdvDataTrace.tla", tcfg, traces)
    for tp, v in verdicts.items():
        evs = vlib.read_ndjson(tp)
        if v.events != len(evs):
            raise vlib.ToolFailure("trace %s: %d events validated, %d recorded" % (tp, v.events, len(evs)))
        for i, e in enumerate(evs, 1):
            counts[e["e"]] = counts.get(e["e"], 0) + 1
            if e["e"] in ("adv", "sr") and i not in v.mismatch_lines:
                for t in ad_types(e["out"]):        # statistics only (vacuity), not an oracle
                    k = "%s:0x%02X" % (e["e"], t)
                    counts[k] = counts.get(k, 0) + 1
        c.add_traces(sum(1 for e in evs if e["e"] == "Reset"), v.events)
        why = whys(v)
        cur = None
        for i, e in enumerate(evs, 1):
            if e["e"] == "Reset":
                cur = e["id"]
            if i not in v.mismatch_lines:
                continue
            d = decl_of[cur]
            nd = norm(d)
            w = e["w"] if e["e"] == "Crash" else e["e"]
            sig = signature(e, why.get(i, []), nd)
            if e["e"] == "Crash":
                what = ("%s(buffer, %d) of a server with %s %s data crashes / trips the sanitizer (%s): access outside "
                        "the offered buffer" % ("scan_response_data" if w == "sr" else "advertising_data", e["n"],
                                                nd["srMode" if w == "sr" else "advMode"],
                                                "scan response" if w == "sr" else "advertising", e.get("what")))
            else:
                what = ("%s(buffer, %d) returned %d octets %s: violates %s for declaration %s"
                        % ("scan_response_data" if w == "sr" else "advertising_data", e["n"], e["r"], e["out"],
                           sorted(why.get(i, [])), json.dumps(d)))
            c.finding(sig, what, {"decl": d, "which": w, "n": e["n"]})


def run(c):
    c.assumptions += [
        "user supplied (custom / run-time) advertising and scan response data is itself well formed and at most 31 octets",
        "buffer sizes above 31 octets are outside the property's domain: only memory safety, 'fits the buffer' and the "
        "structural rules are demanded there (the link layer offers exactly 31 octets)",
        "the implicit GAP service UUID 0x1800 may or may not be listed; a list lacking only it may carry either marker",
        "name and UUID lists must be present in the advertising data when it has room for their smallest form "
        "(reading of 'list the name and service UUIDs'); nothing is demanded to be present in the scan response",
        "an explicit list_of_*_service_uuids option wins over no_list_of_service_uuids for its own width",
    ]
    if c.replay:
        return replay(c)
    # 1. the oracle itself (runs while the servers are compiled)
    mc_pool = ThreadPoolExecutor(1)
    mc = mc_pool.submit(vlib.model_check, c, "AdvData", "AdvDataMC.tla", "MC.cfg" if c.quick else "MCThorough.cfg",
                        workers=4)
    # 2. declarations
    rnd = random.Random(c.seed)
    decls = list(CORNERS) + [random_decl(rnd) for _ in range(9 if c.quick else 119)]
    decl_of = dict(enumerate(decls))
    groups = [list(decl_of.items())[i:i + PER_TU] for i in range(0, len(decls), PER_TU)]
    try:
        with ThreadPoolExecutor(vlib.jobs(12) if hasattr(vlib, 'jobs') else 8) as ex:
            exes = list(ex.map(lambda g: build_group(c, "g%d" % g[0], g[1]), enumerate(groups)))
    finally:
        mc.result()          # a failing model check is a tool failure (raised here)
        mc_pool.shutdown()
    # 3. every buffer size, both functions
    def drive(job):
        gi, g = job
        lines = ["%d %d %d" % (k, w, n) for k, _ in g for w in (0, 1) for n in NS]
        return run_script(exes[gi], "g%d" % gi, lines, c.build_dir)
    with ThreadPoolExecutor(vlib.jobs(12) if hasattr(vlib, 'jobs') else 8) as ex:
        res = list(ex.map(drive, enumerate(groups)))
    # few TLC runs (JVM start dominates): concatenate the per-unit traces, every one starts with a Reset event
    traces = []
    for i, part in enumerate(vlib.chunks([r[0] for r in res], 2 if c.quick else 6)):
        tp = os.path.join(c.build_dir, "trace_%d.ndjson" % i)
        with open(tp, "w") as f:
            for p in part:
                f.write(open(p).read())
        traces.append(tp)
    c.note("%d declarations in %d translation units, %d harness processes" % (len(decls), len(groups), sum(r[1] for r in res)))
    # 4. TLC decides
    counts = {}
    validate_and_report(c, traces, decl_of, counts)
    c.extra["events_by_action"] = counts
    # every kind of event and every AD type the rules talk about occurs in accepted calls
    for a in ("Reset", "adv", "sr") + tuple("adv:0x%02X" % t for t in (1, 2, 3, 6, 7, 8, 9, 0x12, 0x19)):
        if not counts.get(a):
            raise vlib.ToolFailure("vacuous: no %s event validated" % a)
    c.extra["declarations"] = len(decls)
    c.extra["buffer_sizes"] = NS
    c.extra["rule"] = ("plain grid enumerated by checks/advdata.py: (%d corner declarations + %d seeded random ones) x "
                       "{advertising_data, scan_response_data} x buffer sizes %s; every call is judged by TLC "
                       "(AdvDataTrace.tla) against the declaration carried in the Reset event"
                       % (len(CORNERS), len(decls) - len(CORNERS), "0..31,32,33,40,64,100"))
    evs = vlib.read_ndjson(traces[0])
    c.sample({"declaration": decls[0], "record": norm(decls[0])})
    c.sample(evs[:4])
    c.sample({"declaration": decls[-1]})


def replay(c):
    case = json.load(open(c.replay))["case"]
    d, w, n = case["decl"], case["which"], case["n"]
    with ThreadPoolExecutor(1) as pool:      # the oracle's own check is part of every run (evidence: states > 0)
        mc = pool.submit(vlib.model_check, c, "AdvData", "AdvDataMC.tla", "MC.cfg", workers=4)
        exe = build_group(c, "replay", [(0, d)])
        mc.result()
    tp, _ = run_script(exe, "replay", ["0 %d %d" % (1 if w == "sr" else 0, n)], c.build_dir)
    counts = {}
    validate_and_report(c, [tp], {0: d}, counts)
    c.sample(vlib.read_ndjson(tp))
    c.extra["events_by_action"] = counts
