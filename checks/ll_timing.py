"""C21, C22, C23 - link layer connection state machine: instants, event timing/supervision, peripheral latency.

spec/LinkLayer/LinkLayer.tla        property-level spec: one action per radio callback, guards = what the properties
                                    demand of the link layer's answer (scheduled window / channel / end of link)
spec/LinkLayer/LinkLayerMC.tla      closed design-level model (most general conforming peripheral + simulated central),
                                    model checked exhaustively: lost-event patterns, latency 0..3, instants -3..+8, wrap
spec/LinkLayer/LinkLayerGen.tla     behaviour generator (environment behaviours -> scripts for the scripted radio); family
                                    "latbound": latency value boundaries x pull back distance x channel index x counter wrap
spec/LinkLayer/LinkLayerTrace.tla   trace validation of the recorded radio calls / callbacks of the real link layer
harness/ll/scripted_radio.hpp       harness-owned radio written against the scheduled_radio concept
harness/ll/ll_harness.cpp           drives bluetoe::link_layer::link_layer<server, scripted_radio, options...>
"""
import json
import os
import re
import vlib

PROPS = ["C21", "C22", "C23"]

_TECH = ("TLA+ model checking (TLC) of a closed design-level model + TLC-generated environment behaviours replayed on the "
         "real link_layer<> through a harness-owned scripted radio + TLC trace validation against the property-level spec")
META = {
    "C21": {"text": "TLC explores the closed model (most general peripheral allowed by the spec + central) for update / "
                    "channel-map / PHY indications with instants at signed distance -3..+8 (incl. the 16-bit counter "
                    "wrap), latency 0..3, every lost-event pattern, traffic and event cancelation while pending; the "
                    "generated environment behaviours are replayed on the real link_layer<> (latency option variants) "
                    "and every recorded Sched/Timeout/EndEvent/Cancel/callback is validated by TLC: parameters old "
                    "before and new from the event whose time-derived counter equals the instant, or link end 0x28 "
                    "when the instant is not in the future; received data processed at the latest in the instant's "
                    "event; no scheduled counter jumps over the instant.",
            "note": "distance +1 may be refused or accepted (deliberate tolerance); data processing is witnessed by "
                    "LL_FEATURE_REQ / ATT read callbacks; exact simulated clock; radio bindings not executed; trusted: "
                    "TLC, harness/ll (scripted radio + simulated central), g++/ASan.",
            "technique": _TECH, "design_ref": "5.6"},
    "C22": {"text": "CONNECT_IND parameter grid at every Core-spec limit (-1/0/+1), SCA codes 0..7 x own accuracy, every "
                    "lost/received pattern up to the supervision timeout for small timeouts, connection updates x "
                    "losses around the instant: replayed on the real link_layer<>; TLC validates every scheduled "
                    "window (centre = last anchor + n*interval with n derived from time; half width >= combined SCA * "
                    "elapsed - 1us in exact integer arithmetic; transmit window after connect/update), every "
                    "supervision / attempt timeout and that only valid parameters produce a connection.",
            "note": "validity = Core spec Vol 6 Part B 4.5.1/4.5.2 ranges; exact simulated clock (no drift simulated, the "
                    "window is checked against the bound); window upper bounds are not demanded; trusted: TLC, "
                    "harness/ll, g++/ASan.",
            "technique": _TECH, "design_ref": "5.6"},
    "C23": {"text": "Latency 0..3 x all six radio event flags x lost events x notifications with event cancelation "
                    "(disarmable or not, early/late) x channel-map updates, and the latency value boundaries "
                    "0,1,2,36,37,38,74,255,256,481,482,483,498,499 (interval / supervision timeout valid for the latency) x "
                    "planned event pulled back by one / half / all but one of the skipped events x channel index of the "
                    "planned event (small, middle, large) x hop x 16-bit event counter wrap (quick: rotating half of the "
                    "latencies per family), for the latency configurations ignored / "
                    "strict / strict_plus / default / run-time switchable set: replayed on the real link_layer<>; TLC "
                    "validates for every scheduled event SkipBound (<= latency skipped), ListenWhenRequired (next "
                    "event whenever a configured condition held) and channel = CSA#1(map, hop, counter) with the "
                    "counter derived from the window's time, also for pulled-back events.",
            "note": "listen conditions = flags passed by the radio plus data pending in the transmit buffer when the "
                    "event ended; exact simulated clock; trusted: TLC, harness/ll, g++/ASan.",
            "technique": _TECH, "design_ref": "5.6"},
}

SOURCES = ["ll/ll_harness.cpp"] + [s for s in vlib.LL_SOURCES if os.path.exists(s)]
INCLUDES = ["-I" + vlib.HARNESS + "/ll"]

# link layer variants: name -> (defines, own sca, number of run-time latency configurations, 2 MBit PHY)
VARIANTS = {
    "default":     (["LL_LATENCY=0"], 500, 1, True),
    "ignored":     (["LL_LATENCY=1"], 500, 1, True),
    "strict":      (["LL_LATENCY=2"], 500, 1, True),
    "strict_plus": (["LL_LATENCY=3"], 500, 1, True),
    "set":         (["LL_LATENCY=4"], 500, 4, True),
    "empty":       (["LL_LATENCY=5"], 500, 1, True),
    "unack_txne":  (["LL_LATENCY=6"], 500, 1, True),
    "sca20":       (["LL_LATENCY=0", "LL_OWN_SCA=20"], 20, 1, True),
    "sca250":      (["LL_LATENCY=2", "LL_OWN_SCA=250", "LL_TX=61", "LL_RX=61", "LL_2M=0"], 250, 1, False),
}


def build_variants(c, names):
    jobs = [dict(name="ll_" + n, sources=SOURCES, defines=VARIANTS[n][0], includes=INCLUDES) for n in names]
    exes = vlib.build_many(c, jobs)
    return dict(zip(names, exes))


def gen_cfg(c, name, family, D=6, lats="{0,1,3}", dminneg=3, dmax=8, ncfg=1, small="FALSE", wraps="{}", rots="{0}", wlats="{}"):
    return vlib.write_cfg(c, name, "CONSTANTS Family = \"%s\"  D = %d  Lats = %s  DMinNeg = %d  DMax = %d  NCfg = %d  Small = %s  Wraps = %s  Rots = %s  WLats = %s\n"
                          "SPECIFICATION GSpec\nINVARIANTS Emit\nCHECK_DEADLOCK FALSE\n" % (family, D, lats, dminneg, dmax, ncfg, small, wraps, rots, wlats))


def script_of(beh):
    return ["reset"] + [" ".join(str(x) for x in op) for op in beh]


def parse_diags(out):
    """<<"DIAG", line, <<diag...>>>> prints (TLC may wrap them over several lines) -> {line: [diag items]}"""
    res = {}
    pos = 0
    while True:
        m = re.search(r'<<\s*"DIAG"', out[pos:])
        if not m:
            return res
        start = pos + m.start()
        depth, i = 0, start
        while i < len(out):
            if out.startswith("<<", i):
                depth += 1
                i += 2
            elif out.startswith(">>", i):
                depth -= 1
                i += 2
                if depth == 0:
                    break
            else:
                i += 1
        v = vlib.parse_tla_value(" ".join(out[start:i].split()))
        if v and len(v) >= 3:
            res[int(v[1])] = v[2]
        pos = i


def conn_classes(ev):
    """names of the Core-spec limits a CONNECT_IND violates (labels the finding; the verdict is TLC's)"""
    cl = []
    i, lat, to, ws, wo, hop = ev["int"], ev["lat"], ev["to"], ev["ws"], ev["wo"], ev["hop"]
    nch = sum(bin(b if k < 4 else b & 0x1f).count("1") for k, b in enumerate(ev["map"]))
    if i < 6: cl.append("interval<7.5ms")
    if i > 3200: cl.append("interval>4s")
    if lat > 499: cl.append("latency>499")
    if to < 10: cl.append("timeout<100ms")
    if to > 3200: cl.append("timeout>32s")
    if lat <= 499 and 6 <= i <= 3200 and 10 <= to <= 3200:
        if to * 4 == (1 + lat) * i: cl.append("timeout=(1+latency)*interval*2")
        if to * 4 < (1 + lat) * i: cl.append("timeout<(1+latency)*interval*2")
    if ws == 0: cl.append("winsize=0")
    if ws > 8: cl.append("winsize>10ms")
    if 0 < ws <= 8 and ws == i: cl.append("winsize=interval")
    if 0 < ws <= 8 and ws > i: cl.append("winsize>interval")
    if wo > i: cl.append("winoffset>interval")
    if hop < 5 or hop > 16: cl.append("hop")
    if nch < 2: cl.append("channels<2")
    return cl


def signature(prop, variant, ev, diag, before=()):
    items = []
    skip = False
    for x in diag:
        if skip:
            skip = False
            continue
        if x in ("k", "lat"):       # numeric detail: part of `what`, not of the signature
            skip = True
            continue
        items.append(str(x))
    sig = ":".join(items)
    if "later_instant" in sig and ev.get("e") != "Cancel" and any(e.get("e") == "Cancel" and e.get("nsched") == 1 for e in before):
        sig += ":after_pullback"    # an earlier event of this execution was pulled back by try_event_cancelation()
    if ev.get("e") == "ConnReq" and "invalid_parameters_connected" in sig:
        sig = "connreq:invalid[" + "+".join(conn_classes(ev)) + "]:connected"
    return sig


class Runner:
    """replays behaviours on one variant and validates the traces against LinkLayerTrace with a given Check set"""

    def __init__(self, c, exes):
        self.c = c
        self.exes = exes
        self.by_action = {}
        self.outcomes = {}

    def run(self, variant, behs, tag, nfiles=None):
        c = self.c
        own = VARIANTS[variant][1]
        nev = sum(len(b) + 1 for b in behs)
        nfiles = nfiles or max(1, min(8, nev // 2500))
        parts = vlib.chunks(behs, nfiles)
        traces = []
        for i, part in enumerate(parts):
            sp = os.path.join(c.build_dir, "s_%s_%s_%d.txt" % (tag, variant, i))
            tp = os.path.join(c.build_dir, "t_%s_%s_%d.ndjson" % (tag, variant, i))
            vlib.write_lines(sp, [l for b in part for l in script_of(b)])
            rc, out = vlib.run_harness(self.exes[variant], [sp, tp])
            if rc != 0:
                raise vlib.ToolFailure("ll_harness failed rc=%d: %s" % (rc, out[-2000:]))
            traces.append(tp)
        tcfg = vlib.write_cfg(c, "trace_%s_%s.cfg" % (c.prop, variant),
                              "CONSTANTS OwnSca = %d  Check = {\"%s\"}  Phy2M = %s\nSPECIFICATION TSpec\nINVARIANTS TypeOK\nCHECK_DEADLOCK FALSE\n"
                              % (own, c.prop, "TRUE" if VARIANTS[variant][3] else "FALSE"))
        verdicts = vlib.validate_parallel("LinkLayer", "LinkLayerTrace.tla", tcfg, traces)
        nviol = 0
        for tp, part in zip(traces, parts):
            v = verdicts[tp]
            diags = parse_diags(v.out)
            execs = vlib.split_executions(tp)
            c.add_traces(len(execs), v.events)
            if len(execs) != len(part):
                raise vlib.ToolFailure("trace %s has %d executions for %d behaviours" % (tp, len(execs), len(part)))
            for first, evs in execs:
                for e in evs:
                    self.by_action[e["e"]] = self.by_action.get(e["e"], 0) + 1
                    if e["e"] == "ConnReq":
                        k = "connreq_connected" if e["nsched"] == 1 else "connreq_ignored"
                        self.outcomes[k] = self.outcomes.get(k, 0) + 1
                        if e["nsched"] == 0 and e["nadv"] == 0:
                            self.outcomes["connreq_ignored_radio_left_idle"] = self.outcomes.get("connreq_ignored_radio_left_idle", 0) + 1
                    for cb in e.get("cb", []):
                        k = "cb_" + cb["c"] + ("_0x%02x" % cb["a"] if cb["c"] == "closed" else "")
                        self.outcomes[k] = self.outcomes.get(k, 0) + 1
                    if e["e"] == "Crash":
                        idx = [x[0] for x in execs].index(first)
                        c.finding("crash:%s" % e.get("what"), "link layer crashed / sanitizer report while replaying %s" % part[idx],
                                  {"variant": variant, "script": script_of(part[idx])})
                        nviol += 1
            for ln in v.mismatch_lines:
                idx = max(i for i, e in enumerate(execs) if e[0] <= ln)
                first, evs = execs[idx]
                ev = evs[ln - first]
                diag = diags.get(ln, [ev["e"], "unexplained"])
                sig = signature(c.prop, variant, ev, diag, evs[:ln - first])
                brief = {k: ev[k] for k in ev if k in ("e", "dt", "now", "flags", "rx", "nsched", "nadv", "ch", "s", "en", "ci", "cb", "phy",
                                                       "ws", "wo", "int", "lat", "to", "map", "hop", "scac", "pend0", "latcfg", "disok", "ivals")}
                if c.finding(sig, "link_layer<%s>: %s rejected by LinkLayer.tla[%s]: %s; event %d of the execution: %s"
                             % (variant, ev["e"], c.prop, diag, ln - first + 1, json.dumps(brief)),
                             {"variant": variant, "check": c.prop, "script": script_of(part[idx]), "event_index": ln - first + 1, "diag": diag}):
                    nviol += 1
        return nviol


def generate(c, family, name, **kw):
    simulate = kw.pop("simulate", None)
    depth = kw.pop("depth", None)
    cfg = gen_cfg(c, name, family, **kw)
    if simulate:
        return vlib.generate(c, "LinkLayer", "LinkLayerGen.tla", cfg, simulate=simulate, depth=depth, seed=c.seed, workers=4)
    return vlib.generate(c, "LinkLayer", "LinkLayerGen.tla", cfg, workers=4)


def model(c):
    """design level: exhaustive check of the closed model"""
    if not os.path.exists(os.path.join(vlib.SPEC, "LinkLayer", "LinkLayerMC.tla")):
        c.note("LinkLayerMC.tla missing")
        return
    cfgname = "MC_%s_%s.cfg" % (c.prop, "quick" if c.quick else "thorough")
    vlib.model_check(c, "LinkLayer", "LinkLayerMC.tla", cfgname, workers=4 if c.quick else 8, timeout=1500)


def finish(c, r):
    c.extra["events_by_action"] = r.by_action
    c.extra["outcomes"] = r.outcomes
    c.assumptions += [
        "scheduled_radio concept: T0 after end_event() = reception time of the first PDU; after timeout() unchanged; "
        "after adv_received() = end of the CONNECT_IND (transmit window offset counted from there + 1.25 ms)",
        "simulated central with an exact clock: anchors at multiples of the interval it sent, transmit window position x0/x1 "
        "chosen by the behaviour; event counter of every scheduled event derived from the window's time, never read from the code",
        "transmit / receive buffers large enough for the traffic of the behaviours (no LL control PDU is postponed for lack of memory)",
    ]


# ----------------------------------------------------------------------------------------------------------
def run_c22(c, r):
    q = c.quick
    behs = generate(c, "connreq", "gen_connreq.cfg")
    c.sample({"family": "connreq", "behaviour": behs[0]})
    r.run("default", behs, "connreq")
    behs = generate(c, "superv", "gen_superv.cfg", D=6 if q else 8)
    c.sample({"family": "superv", "behaviour": behs[-1]})
    r.run("default", behs, "superv")
    behs = generate(c, "update", "gen_update.cfg", small="TRUE" if q else "FALSE")
    c.sample({"family": "update", "behaviour": behs[len(behs) // 2]})
    r.run("default", behs, "update")
    if not q:
        for variant in ("sca20", "sca250"):
            b1 = generate(c, "connreq", "gen_connreq2.cfg")
            b2 = generate(c, "superv", "gen_superv2.cfg", D=7)
            b3 = generate(c, "update", "gen_update2.cfg", small="TRUE")
            r.run(variant, b1 + b2 + b3, "all")
        # random deep loss patterns
        behs = generate(c, "superv", "sim_superv.cfg", D=60, simulate=60, depth=70)
        r.run("default", behs, "supsim")
    c.exhaustive = True


# boundaries of the peripheral latency VALUE: 0..2, around one / two rounds of the 37 data channels, 8 bit boundary, around the
# largest multiple of 37 below the legal maximum (481 = 13 * 37), the legal maximum 499
LAT_BOUNDS = [0, 1, 2, 36, 37, 38, 74, 255, 256, 481, 482, 483, 498, 499]


def latbound_behaviours(c):
    """family "latbound" (LinkLayerGen.tla): latency value boundaries x pull back distance x channel index of the planned
    event x hop x 16 bit counter wrap. quick: every second latency (rotating with the seed) for the channel index grid, the
    others for the counter wrap, one rotation of hop / timeout / configuration; thorough: all latencies, four rotations.
    Generated for the run-time switchable configuration set (`latcfg` op first); the other variants replay it without that op."""
    if c.quick:
        par = c.seed % 2
        grid, wrap, rots = LAT_BOUNDS[par::2], LAT_BOUNDS[1 - par::2], [c.seed % 9]
    else:
        grid, wrap, rots = LAT_BOUNDS, LAT_BOUNDS, [0, 3, 4, 8]
    tla_set = lambda xs: "{" + ",".join(str(x) for x in xs) + "}"
    behs = generate(c, "latbound", "gen_latbound.cfg", lats=tla_set(grid), wlats=tla_set(wrap), rots=tla_set(rots), ncfg=4, small="TRUE")
    c.extra["latbound"] = {"grid_latencies": grid, "wrap_latencies": wrap, "rotations": rots, "behaviours": len(behs)}
    c.sample({"family": "latbound", "behaviour": behs[-1][:16]})
    return behs


def run_c23(c, r):
    q = c.quick
    lb = latbound_behaviours(c)
    for variant in VARIANTS_FOR[(c.prop, q)]:
        ncfg = VARIANTS[variant][2]
        if q:
            behs = generate(c, "latency", "gen_lat_%s.cfg" % variant, D=2, lats="{2}", ncfg=ncfg, small="TRUE")
        elif variant in ("default", "strict"):
            behs = generate(c, "latency", "gen_lat_%s.cfg" % variant, D=3, lats="{2}", ncfg=ncfg, small="TRUE")
        else:
            behs = generate(c, "latency", "gen_lat_%s.cfg" % variant, D=2, lats="{1,3}", ncfg=ncfg, small="TRUE")
        c.sample({"family": "latency", "variant": variant, "behaviour": behs[len(behs) // 3]})
        behs += [b if ncfg > 1 else [op for op in b if op[0] != "latcfg"] for b in lb]
        r.run(variant, behs, "lat")
        nsim, dsim = (40, 8) if q else (150, 14)
        behs = generate(c, "latency", "sim_lat_%s.cfg" % variant, D=dsim, lats="{1,2,3}", ncfg=ncfg, simulate=max(1, nsim // 4), depth=dsim + 4)
        r.run(variant, behs[:nsim], "latsim")
    c.exhaustive = True


def run_c21(c, r):
    q = c.quick
    for variant in VARIANTS_FOR[(c.prop, q)]:
        if q:
            behs = generate(c, "instant", "gen_inst_%s.cfg" % variant, D=2, lats="{0,2}", dminneg=2, dmax=3, small="TRUE")
            behs += generate(c, "instant", "gen_wrap_%s.cfg" % variant, D=0, lats="{2}", dminneg=1, dmax=3, small="TRUE", wraps="{65527}")
        elif variant == "default":
            behs = generate(c, "instant", "gen_inst_%s.cfg" % variant, D=2, lats="{0,3}", dminneg=3, dmax=8)
            behs += generate(c, "instant", "gen_wrap_%s.cfg" % variant, D=1, lats="{0,3}", dminneg=3, dmax=8, small="TRUE", wraps="{65524, 65527, 65530}")
        else:
            behs = generate(c, "instant", "gen_inst_%s.cfg" % variant, D=2, lats="{1,2}", dminneg=3, dmax=4, small="TRUE")
        c.sample({"family": "instant", "variant": variant, "behaviour": behs[len(behs) // 2]})
        r.run(variant, behs, "inst")
        if not q and variant == "default":
            behs = generate(c, "instant", "sim_inst.cfg", D=8, lats="{0,1,2,3}", dminneg=3, dmax=8, simulate=60, depth=16)
            r.run(variant, behs[:240], "instsim")
    c.exhaustive = True


VARIANTS_FOR = {
    ("C22", True): ["default"], ("C22", False): ["default", "sca20", "sca250"],
    ("C23", True): ["set", "strict"], ("C23", False): ["set", "default", "ignored", "strict", "strict_plus", "empty", "unack_txne"],
    ("C21", True): ["default"], ("C21", False): ["default", "set", "strict"],
}


def run(c):
    if c.replay:
        return replay(c)
    names = VARIANTS_FOR[(c.prop, c.quick)]
    exes = build_variants(c, names)
    model(c)
    r = Runner(c, exes)
    {"C21": run_c21, "C22": run_c22, "C23": run_c23}[c.prop](c, r)
    finish(c, r)


def replay(c):
    case = json.load(open(c.replay))["case"]
    variant = case["variant"]
    exes = build_variants(c, [variant])
    r = Runner(c, exes)
    beh = [l.split() for l in case["script"][1:]]
    n = r.run(variant, [beh], "replay", nfiles=1)
    # no design-level model run in replay mode: the states explored are those of the trace validation
    c.states += c.events
    c.transitions += c.events
    tp = os.path.join(c.build_dir, "t_replay_%s_0.ndjson" % variant)
    c.sample(vlib.read_ndjson(tp)[:case.get("event_index", 10) + 1][-4:])
    if n == 0 and not c.known_hits:
        c.note("replayed case is accepted by the specification now")
    finish(c, r)
