"""C13 - notification requests from interrupt context are never lost (nor duplicated).

spec/NotifQueueIsr/NotifLin.tla       property level: linearizable pending-set queue (subset construction)
spec/NotifQueueIsr/NotifIsrImpl.tla   access-level model of add()/at()/remove(); AtomicRMW switch = repaired design
spec/NotifQueueIsr/NotifIsrGen.tla    schedule generator
spec/NotifQueueIsr/NotifIsrTrace.tla  trace validation of the real call/return history
harness/notifq_isr + hook H2          real notification_queue, every access to a queue byte is a scheduler step
"""
import json
import os
import random
import vlib

PROPS = ["C13"]
META = {"C13": {
    "text": "TLC explores all interleavings of producer add() and consumer dequeue at single-memory-access "
            "granularity (NotifIsrImpl) against the linearizable pending-set specification (NotifLin); the "
            "interleavings (all for the small bound, random beyond) are replayed on the real notification_queue "
            "through hook H2 + deterministic scheduler and the recorded call/return histories (followed by a "
            "quiescent drain) are validated by TLC. The lost-update / stale-store counterexamples TLC finds are "
            "reproduced on the real code and recorded as known findings; the AtomicRMW variant of the model "
            "shows the repaired design is linearizable.",
    "note": "granularity = one C++ access to a shared byte (a compound |= / &= is load then store, as on "
            "Cortex-M0/M4 without exclusive access); next_ and the outstanding-confirmation index are "
            "consumer-private; the BOOLEAN result of queue_*() is left open (C12 decides it sequentially); the "
            "single-entry specialisation is exercised with one request kind per execution.",
    "technique": "TLA+ model checking of an access-level model + TLC-generated schedules replayed on the real class "
                 "via a deterministic scheduler + TLC trace validation (linearizability)",
    "design_ref": "5.2"}}

SPECDIR = "NotifQueueIsr"


def cfg(n, nprod, ncons, nconf, atomic, spec, inv, view=True):
    return ("CONSTANTS N = %d NProd = %d NCons = %d NConf = %d AtomicRMW = %s\nSPECIFICATION %s\nINVARIANTS %s\n%sCHECK_DEADLOCK FALSE\n"
            % (n, nprod, ncons, nconf, "TRUE" if atomic else "FALSE", spec, inv, "VIEW View\n" if view else ""))


def script(beh):
    lines = ["reset"]
    for ctx, kind, i, k in beh:
        if kind == "cf":
            lines.append("cf")
        elif ctx == "P":
            lines.append("s 0 %d %s" % (max(i, 0), k if k in ("n", "i") else "n"))
        else:
            lines.append("s 1")
    return lines


def stale_rmw(evs):
    """classify: which context's store overwrote the other's store with a stale value (non-atomic RMW)"""
    found = set()
    last_ld = {}     # (ctx, addr) -> index of last load
    stores = []      # (index, ctx, addr)
    for idx, e in enumerate(evs):
        if e["e"] != "Acc":
            continue
        key = (e["p"], e["a"])
        if e["k"] == "ld":
            last_ld[key] = idx
        elif e["k"] == "st":
            ld = last_ld.get(key)
            if ld is not None and any(s[0] > ld and s[1] != e["p"] and s[2] == e["a"] for s in stores):
                found.add(e["p"])
            stores.append((idx, e["p"], e["a"]))
    return found


def replay_and_validate(c, exe, n, behs, tag):
    tcfg = vlib.write_cfg(c, "trace_%d.cfg" % n, "CONSTANTS N = %d\nSPECIFICATION TSpec\nCHECK_DEADLOCK FALSE\n" % n)
    parts = vlib.chunks(behs, max(1, min(8, sum(len(b) for b in behs) // 4000)))

    def one(ip):
        i, part = ip
        sp = os.path.join(c.build_dir, "s_%s_%d.txt" % (tag, i))
        tp = os.path.join(c.build_dir, "t_%s_%d.ndjson" % (tag, i))
        vlib.write_lines(sp, [l for b in part for l in script(b)])
        rc, out = vlib.run_harness(exe, [sp, tp])
        if rc != 0:
            raise vlib.ToolFailure("notifq_isr harness rc=%d %s" % (rc, out[-2000:]))
        vlib.write_lines(tp + ".hist", [e for e in vlib.read_ndjson(tp) if e["e"] != "Acc"])
        return tp
    from concurrent.futures import ThreadPoolExecutor
    with ThreadPoolExecutor(8) as ex:
        traces = list(ex.map(one, enumerate(parts)))
    verdicts = vlib.validate_parallel(SPECDIR, "NotifIsrTrace.tla", tcfg, [t + ".hist" for t in traces])
    bad = 0
    for tp in traces:
        v = verdicts[tp + ".hist"]
        execs = vlib.split_executions(tp)
        hexecs = vlib.split_executions(tp + ".hist")
        c.add_traces(len(execs), v.events)
        for ln in v.mismatch_lines:
            bad += 1
            k = max(i for i, e in enumerate(hexecs) if e[0] <= ln)
            first, hevs = hexecs[k]
            evs = execs[k][1]
            ev = hevs[ln - first]
            who = stale_rmw(evs)
            if who:
                sig = "stale-rmw:" + "+".join(sorted("%s-overwrites-%s" % (w, "C" if w == "P" else "P") for w in who))
            else:
                sig = "unexplained:%s:%s" % (ev["e"], ev.get("k", ev.get("r")))
            sched = [l for l in script([[e["p"], e["k"], -1, "-"] for e in evs if e["e"] == "Acc"])]
            c.finding(sig, "notification_queue<%d>: history %s is not explainable by an atomic pending set "
                      "(request lost or duplicated)" % (n, [e for e in hevs[:ln - first + 1]]),
                      {"n": n, "events": evs})
    c.extra["rejected_executions"] = c.extra.get("rejected_executions", 0) + bad
    if behs:
        c.sample({"n": n, "schedule": behs[0]})


def random_single_kind(rng, n_exec, kind):
    """schedules for the single-entry specialisation: one request kind per execution"""
    behs = []
    for _ in range(n_exec):
        b, p_left, started = [], rng.randint(1, 3), False
        for _ in range(rng.randint(4, 24)):
            r = rng.random()
            if r < 0.45 and p_left > 0:
                b.append(["P", "ld", 0, kind]); started = True
                if rng.random() < 0.3:
                    p_left -= 1
            elif r < 0.9:
                b.append(["C", "ld", -1, "-"])
            else:
                b.append(["C", "cf", -1, "-"])
        behs.append(b)
    return behs


def run(c):
    c.assumptions += ["a compound assignment on a shared byte is a load followed by a store (no exclusive access)",
                      "one C++ access to a shared byte = one indivisible step",
                      "producer = one context, consumer = one context (SPSC), arbitrary preemption both ways"]
    exes = {n: vlib.build(c, "nq_%d" % n, ["notifq_isr/notifq_isr_harness.cpp"], defines=["QN=%d" % n]) for n in (1, 2, 4, 5)}
    if c.replay:
        case = json.load(open(c.replay))["case"]
        beh = []
        for e in case["events"]:
            if e["e"] == "QBegin":
                req = (e["i"], e["k"])
            if e["e"] == "Acc":
                beh.append([e["p"], e["k"]] + (list(req) if e["p"] == "P" else [-1, "-"]))
            if e["e"] == "Conf":
                beh.append(["C", "cf", -1, "-"])
        replay_and_validate(c, exes[case["n"]], case["n"], [beh], "replay")
        return
    # 1. design level. (a) the repaired design (atomic read-modify-write) is linearizable
    for n, np_, nc, ncf in ([(2, 2, 3, 1)] if c.quick else [(2, 2, 3, 1), (3, 2, 3, 1), (5, 2, 2, 1)]):
        p = vlib.write_cfg(c, "mc_atomic_%d.cfg" % n, cfg(n, np_, nc, ncf, True, "Spec", "Linearizable QuiescentAgreement"))
        vlib.model_check(c, SPECDIR, "NotifIsrImpl.tla", p, workers=8)
    # (b) the code as written: TLC finds the lost update; recorded, and reproduced on the code below
    p = vlib.write_cfg(c, "mc_code.cfg", cfg(2, 2, 2, 1, False, "Spec", "Linearizable QuiescentAgreement"))
    r = vlib.model_check(c, SPECDIR, "NotifIsrImpl.tla", p, workers=8, must_hold=False)
    c.extra["model_of_code_as_written"] = {"violated": r.violated, "meaning": "TLC counterexample = non-atomic |= / &= on a "
                                           "shared byte; the replay below shows whether the real code has it"}
    # 2. all interleavings for the small bound
    exh = [(2, 1, 2, 1)] if c.quick else [(2, 1, 2, 1), (2, 2, 2, 1)]
    for n, np_, nc, ncf in exh:
        p = vlib.write_cfg(c, "gen_%d_%d.cfg" % (n, np_), cfg(n, np_, nc, ncf, False, "GSpec", "Emit", view=False))
        behs = vlib.generate(c, SPECDIR, "NotifIsrGen.tla", p, workers=8)
        replay_and_validate(c, exes[n], n, behs, "exh_%d_%d" % (n, np_))
    c.exhaustive = True
    # 3. random interleavings, larger queues (4 entries = one full byte, 5 = two bytes)
    sims = [(2, 2, 3, 1, 200), (4, 3, 3, 2, 200), (5, 3, 3, 2, 200)] if c.quick else \
           [(2, 3, 4, 2, 3000), (4, 4, 5, 2, 3000), (5, 4, 5, 2, 3000)]
    for n, np_, nc, ncf, cnt in sims:
        p = vlib.write_cfg(c, "sim_%d.cfg" % n, cfg(n, np_, nc, ncf, False, "GSpec", "Emit", view=False))
        behs = vlib.generate(c, SPECDIR, "NotifIsrGen.tla", p, simulate=max(1, cnt // 8), depth=200, seed=c.seed, workers=8)[:cnt]
        replay_and_validate(c, exes[n], n, behs, "sim_%d" % n)
    # 4. single-entry specialisation (state_), one kind per execution; schedules drawn by the check (seeded)
    rng = random.Random(c.seed)
    cnt = 300 if c.quick else 5000
    replay_and_validate(c, exes[1], 1, random_single_kind(rng, cnt, "n") + random_single_kind(rng, cnt, "i"), "single")
