"""C05 - encryption-protected values never exposed / modified on an unencrypted link
C07 - prepared writes deferred, per client, applied in order
C10 - notifications carry the requested characteristic to subscribed clients only
C01 - ATT input handling memory safe and well framed

spec/AttSec/AttSec.tla        property-level predicates (C05ReqOK / C05OutOK, C07WriteOK / C07PrepareOK / C07ExecuteOK,
                              PduOf, ResponseClass / C01ReqOK) and an ideal server (Ref*)
spec/AttSec/EncRule.tla       C05 rule level: all 4^7 placements of the encryption options
spec/AttSec/AttSecModel.tla   design level model on a concrete declaration (ideal server): invariants + behaviour generator
spec/AttSec/AttSecTrace.tla   trace validation of the real server's events (IOEnv.ATTSEC_MODE selects the oracle)
harness/attsec                ATT level harness (one binary per generated server, checks/_attsec.py)
Declarations, gen_server.py and the table GattDb!Build come from the GATT foundation (spec/Gatt, checks/_gatt.py).
"""
import json
import os

import vlib
from checks import _attsec, _gatt

PROPS = ["C05", "C07", "C10", "C01"]
_TECH = ("TLA+ property-level specification + design model checked with TLC, TLC-generated request histories replayed on "
         "generated C++ servers (ASan/UBSan), TLC trace validation")
META = {
    "C05": {
        "text": "EncRule.tla enumerates all 4^7 placements of requires_encryption / no_encryption_required / "
                "may_require_encryption over server x 2 services x 2 characteristics and checks the inheritance rule "
                "(innermost explicit option decides; the code's rule protects at least what is demanded). For 8 (quick) / "
                "32 (thorough) placements a server is compiled; AttSecModel.tla generates all histories of <= 2 requests "
                "(Read, Read Blob, Read By Type, Read Multiple, Write, Write Command, Prepare, Execute, CCCD read/write, "
                "notify, indicate, output poll, security change) behind 5 scenario prefixes (values written / subscriptions "
                "made / writes prepared on an encrypted link that then loses encryption) plus random long ones; every "
                "protected value carries marker octets and TLC validates on the recorded trace that in an unencrypted state no "
                "output contains an octet of a protected value, protected values and CCCDs are unchanged, and a request naming "
                "one protected attribute is rejected with Insufficient Authentication (no key) / Insufficient Encryption.",
        "note": "protection demanded = innermost explicit option is requires_encryption (may_require_encryption does not "
                "require); 2x2 skeleton with bound 4 octet values; link security set through link_state; trusted: TLC, "
                "gen_server.py, harness/attsec, g++/ASan.",
        "technique": _TECH, "design_ref": "5.1"},
    "C07": {
        "text": "AttSecModel.tla (ideal server with shared write queue, 2-3 connections, open / protected / read-only value) is "
                "explored exhaustively to depth 5/6 with the invariants Deferred, Exclusive, Full, Released, Cancel; all "
                "interleavings of {prepare, execute 0/1, write, disconnect, security change} of 2 connections up to depth 3 "
                "(3 connections in thorough) and random ones up to depth 14 are replayed on real servers with "
                "shared_write_queue<22> / <11>; TLC validates every response, the complete value store after every request and "
                "the owner / content of the queue: prepare never changes a value and echoes, is accepted exactly when a write "
                "would be permitted and the queue is free or own and has room, others get Prepare Queue Full, execute 1 applies "
                "the owner's entries in order, execute 0 discards, both and client_disconnected release.",
        "note": "room: an entry that fits with the documented 7 octets overhead must be accepted, one that does not fit with 4 "
                "must be refused; which security error code is used is left to C05; the link-layer scenario (supervision "
                "timeout instead of client_disconnected) is not part of this check; trusted: TLC, harness/attsec, g++/ASan.",
        "technique": _TECH, "design_ref": "5.1"},
    "C10": {
        "text": "Servers with 5 notifying characteristics in 2 services are compiled without priorities and with "
                "higher_outgoing_priority at server level, service level and both (4 quick / 10 thorough); AttSecModel.tla "
                "generates all histories of <= 2 operations {CCCD write, notify / indicate by bound value and by UUID, value "
                "change, output poll, drain, confirmation} of 2 connections behind subscription prefixes plus random long ones; "
                "TLC validates that every Handle Value Notification / Indication carries the VALUE handle and the current value "
                "(clipped to MTU - 3) of a characteristic that was requested for that kind and not yet sent, on a connection "
                "whose CCCD has the bit, never a protected value on an unencrypted link, and that a drain sends every owed "
                "request exactly once.",
        "note": "lower_outgoing_priority does not compile in this revision (gen_server rejects it); 'owed' is only demanded "
                "where the queue defects known under C11/C12 (unsent indication blocks, single entry level) can not interfere; "
                "trusted: TLC, harness/attsec, g++/ASan.",
        "technique": _TECH, "design_ref": "5.1"},
    "C01": {
        "text": "ResponseClass (AttSec.tla) classifies all 256 opcodes; TLC checks on the model for all opcodes x lengths 1..23 "
                "that the ideal server's answers have the demanded shape. On the code the grid all 256 opcodes x lengths "
                "1..MTU (boundary handles 0, 1, max, max+1, 0xFFFF, CCCD / value handles, offsets around the value size) is "
                "executed on corner declarations with and without write queue in 3-5 connection histories (fresh, after MTU "
                "exchange to an intermediate and to the maximum value, CCCDs set + encrypted, queue owned by another client); "
                "the input lengths go up to the server's maximum MTU in every history while the output buffer is a heap buffer "
                "of exactly the negotiated MTU (input length and output capacity vary independently); every PDU is passed in an "
                "exact-size heap buffer under ASan/UBSan, a crash is an event no specification action "
                "accepts; TLC validates response class and length <= negotiated MTU for every request.",
        "note": "the grid is enumerated by the python check (plain product); commands = opcodes with the command flag; "
                "responses / indications sent by the client are unconstrained; over-reads smaller than the ASan granularity "
                "are excluded by placing the PDU at the end of its allocation; trusted: TLC, harness/attsec, g++/ASan/UBSan.",
        "technique": _TECH, "design_ref": "5.1"},
}


# ------------------------------------------------------------------------------------------ common
def signature(why):
    name, ctx, tags = why
    return "%s|%s|%s" % (name, ",".join(sorted(tags)), ctx)


def handle_kind(srv, h):
    t = srv.table
    for hh, k in zip(t["handles"], t["kinds"]):
        if hh == h:
            return k
    return "nohandle"


OPNAMES = {0x02: "Mtu", 0x04: "FindInformation", 0x06: "FindByTypeValue", 0x08: "ReadByType", 0x0a: "Read", 0x0c: "ReadBlob",
           0x0e: "ReadMultiple", 0x10: "ReadByGroupType", 0x12: "Write", 0x16: "Prepare", 0x18: "Execute", 0x52: "WriteCmd",
           0xd2: "SignedWrite", 0x1e: "Confirmation"}


def crash_signature(srv, line):
    w = line.split()
    if w[0] == "req" and len(w) > 2:
        b = [int(x, 0) for x in w[2:]]
        name = OPNAMES.get(b[0], "Op%02x" % b[0])
        kind = handle_kind(srv, b[1] | (b[2] << 8)) if len(b) >= 3 else "short"
        return "Crash|%s|%s" % (name, kind)
    return "Crash|%s" % w[0]


def c10_context(srv, evs):
    """which way notifications were requested in the execution and whether the server declares priorities (the
    signature of a C10 finding names both, so that a failure of another variant is not taken for a known one)"""
    how = sorted({"v" if e.get("how") == 0 else "u" for e in evs if e.get("e") == "Notify"})
    o = srv.norm["opts"]["prio"]["kind"] != "none" or any(s["prio"]["kind"] != "none" for s in srv.norm["services"])
    return "prio=%d|how=%s|" % (1 if o else 0, "".join(how))


def report(c, mode, runs, counts):
    """runs: list of (srv, scripts, traces, crashes) of executed scripts; validates all traces (in parallel) and
    reports one finding per rejected event / crash"""
    by_trace = {}
    for srv, scripts, traces, crashes in runs:
        _attsec.count_events(traces, counts)
        for tp in traces:
            by_trace[tp] = srv
        for k, j, out in crashes:
            lines = scripts[k][:j + 1]
            c.finding(crash_signature(srv, lines[-1]),
                      "%s: the server crashed (sanitizer report / signal) while executing '%s'" % (srv.name, lines[-1]),
                      {"mode": mode, "decl": srv.decl, "lines": lines, "stderr": out[-600:]})
    for tp, ln, ev, why, evs in _attsec.validate(c, mode, sorted(by_trace)):
        if ev.get("e") == "Crash":
            continue
        srv = by_trace[tp]
        short = {k: v for k, v in ev.items() if k not in ("vals", "cccd", "decl")}
        c.finding((c10_context(srv, evs) if mode == "C10" else "") + signature(why),
                  "%s: event %s is not allowed by the %s oracle %s" % (srv.name, json.dumps(short)[:300], mode, list(why)),
                  {"mode": mode, "decl": srv.decl, "lines": _attsec.lines_of_events(evs)})


def replay(c, mode):
    case = json.load(open(c.replay))["case"]
    srv = _attsec.build(c, _attsec.prepare(c, [case["decl"]]))[0]
    counts = {}
    scripts = [case["lines"]]
    traces, crashes = _attsec.run(c, srv, "replay", scripts)
    c.sample(vlib.read_ndjson(traces[0])[-3:])
    report(c, case.get("mode", mode), [(srv, scripts, traces, crashes)], counts)
    c.extra["events_by_action"] = counts


def chunked(scripts, n_events):
    """split a list of executions into parts of about n_events script lines (one harness run / trace file each)"""
    parts, cur, size = [], [], 0
    for s in scripts:
        cur.append(s)
        size += len(s)
        if size >= n_events:
            parts.append(cur)
            cur, size = [], 0
    if cur:
        parts.append(cur)
    return parts


def replay_behaviours(c, mode, jobs, counts, observe=True, chunk=40000, tail=()):
    """jobs: list of (srv, tag, behaviours). Executes everything (harness runs in parallel), then validates all traces"""
    work = []
    for srv, tag, behs in jobs:
        scripts = [_attsec.script_of(srv, b, observe) + list(tail) for b in behs]
        for i, part in enumerate(chunked(scripts, chunk)):
            work.append((srv, "%s%d" % (tag, i), part))

    def one(w):
        srv, tag, part = w
        traces, crashes = _attsec.run(c, srv, tag, part)
        return srv, part, traces, crashes
    report(c, mode, parallel(one, work), counts)


def parallel(fn, items):
    from concurrent.futures import ThreadPoolExecutor
    with ThreadPoolExecutor(min(max(1, len(items)), _attsec.JOBS)) as ex:
        return list(ex.map(fn, items))


# ------------------------------------------------------------------------------------------ C05
def run_c05(c):
    c.assumptions += ["a characteristic requires encryption when the innermost explicit option (characteristic, service, "
                      "server) is requires_encryption; may_require_encryption does not require (encryption.hpp)",
                      "protected values carry marker octets 0xA0..0xDF, client payloads 0xE0..0xFF, everything else in the "
                      "declarations is below 0xA0 - so 'no octet of a protected value in any output' is decidable",
                      "link security is set through link_state::is_encrypted / pairing_status of the connection object"]
    vlib.model_check(c, _attsec.SPEC_DIR, "EncRule.tla", "EncRule.cfg", workers=_attsec.JOBS, coverage=False)
    n = 8 if c.quick else 32
    placements = _attsec.c05_placements(n, c.seed)
    decls = [_attsec.c05_decl(p, "c05_p%02d" % i, gap=(i == 1)) for i, p in enumerate(placements)]
    servers = _attsec.build(c, _attsec.prepare(c, decls))
    c.extra["placements"] = [list(p) for p in placements]
    _attsec.model_check(c, servers[0], "C05", 2, 1, ["RefConforms", "C05NoLeak", "C05Code"], nc=1)
    counts = {}
    nsim, dsim = (12, 30) if c.quick else (60, 40)

    def one(s):
        # every operation behind every scenario prefix; all pairs of operations for the first placement (all in thorough)
        behs = _attsec.behaviours(c, s, "C05", 2 if (s is servers[0] or not c.quick) else 1, 1, nc=1)
        behs += _attsec.behaviours(c, s, "C05", dsim, 0, nc=2, simulate=nsim, seed=c.seed)
        return s, behs
    jobs = []
    for s, behs in parallel(one, servers):
        c.sample({"declaration": s.name, "placement": s.decl["comment"], "behaviour": behs[len(behs) // 2]})
        jobs.append((s, "c05", behs))
    replay_behaviours(c, "C05", jobs, counts)
    c.exhaustive = True
    c.extra["events_by_action"] = counts


# ------------------------------------------------------------------------------------------ C07
C07_INV = ["RefConforms", "C07Deferred", "C07Exclusive", "C07Full", "C07Released", "C07Cancel"]


def run_c07(c):
    c.assumptions += ["the application calls server::client_disconnected for every lost connection",
                      "queue room: accepting is demanded when the entry fits with the documented overhead of 7 octets, "
                      "refusing when it does not fit with 4 octets (handle + offset)"]
    servers = _attsec.build(c, _attsec.prepare(c, _attsec.c07_decls()))
    big, small = servers
    _attsec.model_check(c, big, "C07", 4 if c.quick else 6, 0, C07_INV, nc=2)
    _attsec.model_check(c, small, "C07", 3 if c.quick else 5, 0, C07_INV, nc=3)
    counts = {}
    nsim, dsim = (60, 14) if c.quick else (1500, 16)
    plan = [(big, 3, 2), (small, 2, 3)] if c.quick else [(big, 3, 3), (small, 3, 2), (big, 4, 1)]

    def one(job):
        s, depth, nc = job
        return s, _attsec.behaviours(c, s, "C07", depth, 0, nc=nc)
    jobs = []
    for i, (s, behs) in enumerate(parallel(one, plan)):
        c.sample({"declaration": s.name, "behaviour": behs[len(behs) // 3]})
        jobs.append((s, "bfs%d_" % i, behs))

    def sim(s):
        return s, _attsec.behaviours(c, s, "C07", dsim, 0, nc=3, simulate=nsim, seed=c.seed)
    for s, behs in parallel(sim, servers):
        c.sample({"declaration": s.name, "behaviour": behs[0]})
        jobs.append((s, "sim", behs))
    replay_behaviours(c, "C07", jobs, counts)
    c.exhaustive = True
    c.extra["events_by_action"] = counts


# ------------------------------------------------------------------------------------------ C10
def run_c10(c):
    c.assumptions += ["the notification callback queues on every connection and polls l2cap_output, as the link layer and "
                      "tests/test_tools/test_servers.hpp do; the client confirms every indication during a drain",
                      "lower_outgoing_priority<> is declared but does not compile inside a server in this revision"]
    decls = _attsec.c10_decls(4 if c.quick else 10, c.seed)
    servers = _attsec.build(c, _attsec.prepare(c, decls))
    c.extra["declarations"] = [d["comment"] for d in decls]
    _attsec.model_check(c, servers[0], "C10", 3, 1, ["RefConforms", "C10Requested", "C10Single"], nc=2)
    counts = {}
    nsim, dsim = (40, 24) if c.quick else (400, 30)

    def one(s):
        # all pairs of operations of one connection (two in thorough) from the empty history and behind "connection 1
        # subscribed to everything"; the second connection acts in the random behaviours
        behs = _attsec.behaviours(c, s, "C10", 2, 1, nc=1 if c.quick else 2)
        behs += _attsec.behaviours(c, s, "C10", dsim, 2, nc=2, simulate=nsim, seed=c.seed)
        return s, behs
    jobs = []
    for s, behs in parallel(one, servers):
        c.sample({"declaration": s.name, "priorities": s.decl["comment"], "behaviour": behs[len(behs) // 2]})
        jobs.append((s, "c10", behs))
    # every execution ends with a drain of both connections: whatever was requested is observed
    replay_behaviours(c, "C10", jobs, counts, tail=("drain 0", "drain 1"))
    c.exhaustive = True
    c.extra["events_by_action"] = counts


# ------------------------------------------------------------------------------------------ C01
KNOWN_OPS = [0x01, 0x02, 0x04, 0x06, 0x08, 0x0a, 0x0c, 0x0e, 0x10, 0x12, 0x16, 0x18, 0x1b, 0x1d, 0x1e, 0x52, 0xd2]


def c01_lengths(in_max, thorough, long_inputs):
    """PDU lengths of the grid: every length up to 25, then (quick) every 8th and the last three up to in_max"""
    if not long_inputs:
        in_max = min(in_max, 25)
    if thorough or in_max <= 25:
        return list(range(1, in_max + 1))
    return sorted(set(list(range(1, 26)) + list(range(28, in_max + 1, 8)) + [in_max - 2, in_max - 1, in_max]))


def c01_grid(srv, in_max, thorough, unknown=True, long_inputs=True):
    """all 256 opcodes x lengths 1..in_max (the server's maximum MTU - independent of the MTU negotiated in the history,
    which is the size of the output buffer) with boundary field values -> list of PDUs (lists of ints). Every Prepare
    Write Request is followed by an Execute Write Request 'cancel', so that the queue is free for the next one."""
    t = srv.table
    mx = t["maxHandle"]
    hs = [0, 1, mx, mx + 1, 0xffff]
    for special in (srv.cccds[:1], srv.values[:1], srv.values[-1:]):
        hs += [h for h in special if h not in hs]
    seconds = [0, 0xffff] if not thorough else [0, 2, 9, 0xffff]
    lengths = c01_lengths(in_max, thorough, long_inputs)
    out = []
    for op in range(256):
        if op in KNOWN_OPS:
            for n in lengths:
                for h in hs:
                    for s2 in seconds:
                        body = [h & 0xff, h >> 8, s2 & 0xff, s2 >> 8]
                        if op in (0x08, 0x10, 0x06):
                            body += [0x00 if op != 0x08 else 0x03, 0x28]
                        if op == 0x18:
                            body = [s2 & 0xff] + body
                        body += [0x41 + (i % 16) for i in range(in_max)]
                        pdu = [op] + body[:n - 1]
                        if pdu not in out[-40:]:
                            out.append(pdu)
                            if op == 0x16:
                                out.append([0x18, 0x00])
        elif unknown:
            for n in sorted(set(x for x in ([1, 2, 3, 5, 23, 24, in_max] if not thorough else [1, 2, 3, 4, 5, 6, 22, 23, 24, in_max - 1, in_max]) if x <= in_max)):
                out.append([op] + [0x03, 0x00, 0x00, 0x00][:n - 1] + [0x41] * max(0, n - 5))
    return out


def c01_histories(srv):
    """connection histories in front of the grid: (name, script lines without reset / cccds / obs, long inputs in the
    quick tier?); requests go to connection 0. The negotiated MTU of the history is the size of the output buffer; the
    inputs are as long as the server's maximum MTU in any case."""
    hist = [("fresh", [], True)]
    smtu = srv.norm["opts"]["mtu"]
    if smtu > 24:
        hist.append(("mtu_mid", ["mtu 0 %d" % ((23 + smtu) // 2)], True))
    if smtu > 23:
        hist.append(("mtu", ["mtu 0 %d" % smtu], True))
    pre = ["sec 0 1 1"] + ["req 0 18 %d %d 3 0" % (h & 0xff, h >> 8) for h in srv.cccds]
    hist.append(("cccd_enc", pre, False))
    if srv.norm["opts"]["wq"] and srv.values:
        h = srv.values[0]
        hist.append(("queue_owned", ["req 1 22 %d %d 0 0 1" % (h & 0xff, h >> 8)], False))
    return hist


def run_c01(c):
    c.assumptions += ["requests are judged by their first octet: request of the ATT opcode table -> its response opcode or an "
                      "Error Response naming it; command flag / Handle Value Confirmation / Notification / Error Response "
                      "from the client -> no response; other opcodes -> Request Not Supported; response opcodes and "
                      "indications sent by the client are unconstrained",
                      "memory safety is observed with ASan/UBSan on exact-size heap buffers (input ends at the end of its "
                      "allocation, output buffer has exactly the announced size)"]
    mine = [_attsec.c05_decl(_attsec.C05_FIXED[0], "c01_wq_cccd_enc"), _attsec.c10_decl("c01_prio", [2], [2], [3, 2])]
    keep = (("corner_write_queue", "corner_fixed_gaps") if c.quick else
            ("corner_write_queue", "corner_fixed_gaps", "corner_minimal", "corner_cccd5", "corner_encryption", "corner_uuid128"))
    corners = [d for d in _gatt.corner_decls() if d["name"] in keep]
    only = os.environ.get("VERIF_GATT_ONLY")
    decls = [d for d in mine + corners if not only or only in d["name"]]
    servers = _attsec.build(c, _attsec.prepare(c, decls))
    c.extra["declarations"] = [_gatt.decl_summary(s) for s in servers]
    parallel(lambda s: _attsec.model_check(c, s, "C01", 1, 0, ["RefConforms", "C01Framed"], nc=1), servers[:2])
    counts = {}
    per_exec = 250

    def one(s):
        scripts = []
        for hname, pre, long_inputs in c01_histories(s):
            grid = c01_grid(s, s.norm["opts"]["mtu"], not c.quick, unknown=(not c.quick or hname == "fresh"),
                            long_inputs=(long_inputs or not c.quick))
            for i in range(0, len(grid), per_exec):
                scripts.append(["reset", "cccds", "obs 0"] + pre + ["req 0 " + " ".join(str(b) for b in p) for p in grid[i:i + per_exec]])
        nfix = 3
        all_traces, all_crashes, todo, rounds = [], [], scripts, 0
        while todo and rounds < 400:
            traces, crashes = _attsec.run(c, s, "grid%d" % rounds, todo)
            all_traces += traces
            nxt = []
            for k, j, out in crashes:
                all_crashes.append((todo[k][:j + 1], out))
                head = [l for l in todo[k][:j] if not l.startswith("req 0 ")]          # reset + history
                rest = todo[k][j + 1:]
                if rest:
                    nxt.append(head + rest)
            # executions behind a crashed one were run by _attsec.run in follow-up processes already
            todo, rounds = nxt, rounds + 1
        merged = _attsec.merge_traces(all_traces, os.path.join(c.build_dir, "%s_grid.ndjson" % s.name))
        return s, scripts, [merged], all_crashes
    by_trace = {}
    for s, scripts, traces, crashes in parallel(one, servers):
        c.sample({"declaration": s.name, "requests": sum(len(x) for x in scripts), "first": scripts[0][:8]})
        _attsec.count_events(traces, counts)
        by_trace[traces[0]] = s
        for lines, out in crashes:
            c.finding(crash_signature(s, lines[-1]),
                      "%s: the server crashed (sanitizer report / signal) while executing '%s'" % (s.name, lines[-1]),
                      {"mode": "C01", "decl": s.decl, "lines": lines, "stderr": out[-600:]})
    for tp, ln, ev, why, evs in _attsec.validate(c, "C01", sorted(by_trace)):
        s = by_trace[tp]
        if ev.get("e") == "Crash":
            continue
        head = [e for e in evs[:-1] if e.get("e") != "Req" or e.get("c") != 0]       # reset + history
        c.finding(signature(why), "%s: request %s answered %s: not allowed by ResponseClass %s"
                  % (s.name, ev.get("in"), ev.get("out"), list(why)),
                  {"mode": "C01", "decl": s.decl, "lines": _attsec.lines_of_events(head + [evs[-1]])})
    c.exhaustive = True
    c.extra["events_by_action"] = counts
    c.extra["rule"] = "grid enumerated by the python check: 256 opcodes x lengths x boundary handles / offsets x histories"


def run(c):
    if c.replay:
        return replay(c, c.prop)
    {"C05": run_c05, "C07": run_c07, "C10": run_c10, "C01": run_c01}[c.prop](c)
