"""Shared machinery of the GATT checks (C04: gatt_db.py, C02/C03: gatt_discovery.py; reusable for C01, C05-C10, C14).

    decls   = load_decls(c)                      corner declarations (+ TLC-sampled ones in the thorough tier)
    servers = prepare(c, decls)                  gen_server.py + GattDbGen (TLC: WellFormed, TableOK, table summary)
    build_servers(c, servers)                    one harness binary per declaration, compiled in parallel
    run_script(c, srv, tag, lines)  -> trace     run a harness script
    validate(c, traces) -> [(trace, line, event, why)]   TLC trace validation (GattTrace.tla), WHY diagnosis parsed

The name starts with "_" so that checks/__init__.py does not take it for a check module."""
import glob
import json
import os
import re
import sys
from concurrent.futures import ThreadPoolExecutor

import vlib

sys.path.insert(0, os.path.join(vlib.VERIF, "tools"))
import gen_server  # noqa: E402

SPEC_DIR = "Gatt"
DECL_DIR = os.path.join(vlib.SPEC, "Gatt", "decls")
# parallelism: VERIF_JOBS limits both the parallel compiles and the parallel TLC trace validations
JOBS = int(os.environ.get("VERIF_JOBS", "0")) or max(2, vlib.NCPU // 2)


class Server:
    def __init__(self, decl, hpp, norm_path, norm):
        self.decl = decl
        self.name = norm["name"]
        self.hpp = hpp
        self.norm_path = norm_path
        self.norm = norm
        self.table = None      # summary printed by GattDbGen (handles, kinds, types, maxHandle, svcUuids)
        self.exe = None


def corner_decls():
    return [json.load(open(p)) for p in sorted(glob.glob(os.path.join(DECL_DIR, "corner_*.json")))]


def sampled_decls(c, n):
    """n random declarations from the TLA+ defined declaration space: TLC -simulate of GattDeclGen.tla, seeded by
    VERIF_SEED (c.seed). Each behaviour builds one declaration step by step and prints it as JSON."""
    if n <= 0:
        return []
    # one worker: with several workers TLC's RandomElement stream depends on thread scheduling
    r = vlib.tlc(SPEC_DIR, "GattDeclGen.tla", "DeclGen.cfg", simulate=2 * n + 4, depth=40, seed=c.seed, workers=1, timeout=600)
    if r.violated or r.error:
        raise vlib.ToolFailure("declaration sampler failed: %s %s\n%s" % (r.violated, r.error, r.out[-3000:]))
    out, seen = [], set()
    for p in r.prints:
        if p and p[0] == "DECL":
            d = human_from_norm(json.loads(p[1]))
            key = json.dumps(d, sort_keys=True)
            if key in seen:
                continue
            seen.add(key)
            out.append(d)
    for i, d in enumerate(out):
        d["name"] = "sample_%03d" % (i + 1)
    if len(out) < min(n, 3):
        raise vlib.ToolFailure("declaration sampler produced only %d declarations\n%s" % (len(out), r.out[-2000:]))
    return out[:n]


def uuid_text(le):
    be = bytes(reversed(le)).hex().upper()
    return be if len(le) == 2 else "%s-%s-%s-%s-%s" % (be[0:8], be[8:12], be[12:16], be[16:20], be[20:32])


def human_from_norm(n):
    """normalized declaration (as printed by GattDeclGen) -> input format of gen_server.py; notation only"""
    o = n["opts"]
    srv = {"write_queue": o["wq"], "max_mtu": o["mtu"], "encryption": o["enc"], "gap_service": o["gap"]}
    if o.get("has_sname"):
        srv["name"] = bytes(o["sname"]).decode()
    if o.get("appearance"):
        srv["appearance"] = o["appearance"]
    services = []
    for s in n["services"]:
        chars = []
        for ch in s["chars"]:
            vk = ch["vkind"]
            if vk in ("bound", "const"):
                val = {"kind": vk, "size": len(ch["init"])}
            elif vk == "fixed":
                val = {"kind": vk, "bytes": ch["init"]}
            elif vk == "fixed_uint":
                val = {"kind": vk, "width": len(ch["init"]), "value": int.from_bytes(bytes(ch["init"]), "little")}
            else:
                val = {"kind": vk, "size": len(ch["init"]), "read": ch["hread"], "write": ch["hwrite"]}
            c2 = {"uuid": uuid_text(ch["uuid"]), "value": val, "no_read": ch["no_read"], "no_write": ch["no_write"],
                  "notify": ch["notify"], "indicate": ch["indicate"], "handle": ch["handle"], "encryption": ch["enc"]}
            if ch["has_name"]:
                c2["name"] = bytes(ch["name"]).decode()
            if ch["handles"][0]:
                c2["handles"] = ch["handles"]
            chars.append(c2)
        services.append({"uuid": uuid_text(s["uuid"]), "secondary": s["secondary"], "handle": s["handle"],
                         "includes": s["includes"], "encryption": s["enc"], "chars": chars})
    return {"name": n.get("name", "generated"), "comment": "sampled by TLC from GattDeclGen.tla", "server": srv, "services": services}


def load_decls(c, n_sampled):
    decls = corner_decls()
    if not decls:
        raise vlib.ToolFailure("no corner declarations in %s" % DECL_DIR)
    only = os.environ.get("VERIF_GATT_ONLY")        # development aid: restrict to declarations whose name contains this
    if only:
        return [d for d in decls if only in d["name"]] or decls[:1]
    return decls + sampled_decls(c, n_sampled)


def prepare(c, decls):
    """generate header + normalized declaration for every declaration and let TLC evaluate GattDb on them"""
    servers = []
    for d in decls:
        out = os.path.join(c.build_dir, "gen")
        try:
            hpp, nj, norm = gen_server.generate(d, out)
        except gen_server.DeclError as e:
            raise vlib.ToolFailure("declaration %s rejected by gen_server: %s" % (d.get("name"), e))
        servers.append(Server(d, hpp, nj, norm))
    allp = os.path.join(c.build_dir, "decls.ndjson")
    with open(allp, "w") as f:
        for s in servers:
            f.write(open(s.norm_path).read())
    r = vlib.tlc(SPEC_DIR, "GattDbGen.tla", "DbGen.cfg", workers=1, env={"DECLS": allp}, timeout=600)
    c.add_model_run("GattDbGen", "DbGen.cfg", r)
    if r.violated or r.error or not r.completed:
        raise vlib.ToolFailure("GattDbGen failed (violated=%s error=%s): the reference table of a declaration breaks "
                               "its own C04 invariants\n%s" % (r.violated, r.error, r.out[-3000:]))
    tabs = {p[1]: json.loads(p[2]) for p in r.prints if p and p[0] == "TABLE"}
    for s in servers:
        s.table = tabs.get(s.name)
        if not s.table or not s.table.get("wellformed"):
            raise vlib.ToolFailure("declaration %s is not well formed (GattDb!WellFormed)" % s.name)
    return servers


def build_servers(c, servers, defines=None):
    def one(s):
        s.exe = vlib.build(c, "gatt_" + s.name, ["gatt/gatt_harness.cpp"],
                           defines=['VERIF_SERVER_HEADER="%s"' % os.path.basename(s.hpp)] + (defines or []),
                           includes=["-I" + os.path.dirname(s.hpp)])
        return s
    with ThreadPoolExecutor(min(len(servers), JOBS)) as ex:
        return list(ex.map(one, servers))


def run_script(c, srv, tag, lines):
    sp = os.path.join(c.build_dir, "%s_%s.txt" % (srv.name, tag))
    tp = os.path.join(c.build_dir, "%s_%s.ndjson" % (srv.name, tag))
    vlib.write_lines(sp, lines)
    rc, out = vlib.run_harness(srv.exe, [srv.norm_path, sp, tp])
    if rc != 0:
        raise vlib.ToolFailure("gatt harness failed rc=%d on %s: %s" % (rc, sp, out[-2000:]))
    return tp


def run_scripts(c, jobs):
    """jobs: list of (srv, tag, lines) -> list of trace paths (harness runs in parallel)"""
    with ThreadPoolExecutor(JOBS) as ex:
        return list(ex.map(lambda j: run_script(c, *j), jobs))


def validate(c, traces):
    """-> list of mismatches (trace_path, line_no, event dict, why) ; why = (name, ctx, [tags]);
    adds the validated executions / events to the evidence counters"""
    res = []
    if not traces:
        return res
    with ThreadPoolExecutor(min(len(traces), JOBS)) as ex:
        verdicts = list(ex.map(lambda p: vlib.validate_trace(SPEC_DIR, "GattTrace.tla", "Trace.cfg", p, timeout=1500), traces))
    for tp, v in zip(traces, verdicts):
        why = {}
        why = parse_why(v.out)
        evs = vlib.read_ndjson(tp)
        missing = [ln for ln in v.mismatch_lines if ln not in why and evs[ln - 1].get("e") != "Crash"]
        if missing:
            why.update(rediagnose(c, tp, evs, missing))
        c.add_traces(sum(1 for e in evs if e.get("e") == "Reset"), v.events)
        for ln in v.mismatch_lines:
            ev = evs[ln - 1]
            if ev.get("e") == "Crash":
                res.append((tp, ln, ev, ("Crash", "crash", [str(ev.get("what"))])))
            else:
                res.append((tp, ln, ev, why.get(ln, ("?", "?", ["undiagnosed"]))))
    return res


def parse_why(out):
    """<<"WHY", line, name, context, {tags}>> values; TLC wraps long values over several lines and its progress
    reporter may print in between"""
    out = "\n".join(l for l in out.splitlines() if not l.startswith("Progress("))
    why = {}
    for m in re.finditer(r'<<\s*"WHY",.*?>>', out, re.S):
        t = vlib.parse_tla_value(" ".join(m.group(0).split()))
        if t and len(t) == 5:
            why[int(t[1])] = (t[2], t[3], sorted(t[4]))
    return why


def rediagnose(c, tp, evs, lines):
    """diagnosis lines that could not be read from the output of the big run: validate the events again, each in an
    execution of its own (Reset [+ Mtu] + event)"""
    mini, back = [], {}
    for ln in lines:
        i = ln - 1
        while i >= 0 and evs[i].get("e") != "Reset":
            i -= 1
        if i < 0:
            continue
        mini.append(evs[i])
        if i + 1 < len(evs) and evs[i + 1].get("e") == "Mtu":
            mini.append(evs[i + 1])
        mini.append(evs[ln - 1])
        back[len(mini)] = ln
    mp = tp + ".rediag.ndjson"
    vlib.write_lines(mp, mini)
    v = vlib.validate_trace(SPEC_DIR, "GattTrace.tla", "Trace.cfg", mp, timeout=1500)
    w = parse_why(v.out)
    return {back[k]: w[k] for k in w if k in back}


def count_events(traces, counts):
    for tp in traces:
        for e in vlib.read_ndjson(tp):
            k = e.get("e")
            if k in ("Req", "Enum") and e.get("in"):
                k = "%s:0x%02x" % (k, e["in"][0])
            counts[k] = counts.get(k, 0) + 1
    return counts


def big_mtu(srv):
    return srv.norm["opts"]["mtu"]


def decl_summary(srv):
    t = srv.table
    return {"name": srv.name, "attributes": t["n"], "maxHandle": t["maxHandle"], "services": len(srv.norm["services"]),
            "comment": srv.decl.get("comment", "")[:160]}
