"""C19 - L2CAP fragmentation and reassembly are exact and memory safe.

spec/L2capSdu/L2capSdu.tla        property level: what may be delivered for any PDU stream; how an SDU is fragmented
spec/L2capSdu/L2capSduImpl.tla    implementation-shaped receive side (receive_size_, receive_buffer_used_, real copy lengths):
                                  TLC finds the PDU sequences that write past receive_buffer_
spec/L2capSdu/L2capSduGen.tla     random mixed receive/transmit behaviours (-simulate)
spec/L2capSdu/L2capSduTrace.tla   trace validation of the recorded calls of the real class
harness/l2capsdu                  real ll_l2cap_sdu_buffer<stub_radio, stub_radio, MTU> in an exact-size heap block, built with
                                  clang -fsanitize=address -fsanitize-address-field-padding=1 (intra-object redzones)
"""
import itertools
import json
import os
import re
from concurrent.futures import ThreadPoolExecutor

import vlib

PROPS = ["C19"]
META = {"C19": {
    "text": "TLC model checks the property-level reassembly/fragmentation rules (scaled MTU) and an implementation-shaped "
            "model of the receive buffer bookkeeping, which yields the PDU sequences that overflow receive_buffer_; these, "
            "every sequence of up to 3 (thorough: 4) PDUs over an alphabet of well-formed and malformed start/continuation/"
            "control PDUs (two driver styles), a grid of SDU sizes x max tx sizes x radio buffer patterns and TLC-simulated "
            "mixed histories are replayed on the real ll_l2cap_sdu_buffer<stub_radio, stub_radio, MTU> (MTU 8 scaled, 23, "
            "24, 40, 65, 247; layout overhead 0 and 1) under AddressSanitizer with intra-object redzones, and every recorded "
            "call (delivered bytes, emitted fragments, radio queue accounting) is validated by TLC against the property-level model.",
    "note": "bounded: sequences of <= 3/4 PDUs exhaustively over a 10-letter alphabet per MTU, longer ones by simulation; "
            "LL payloads <= 27 bytes in the grids (up to 251 in simulation); the stub radio is a plain queue (no SN/NESN); "
            "MTU 23 (specialisation) is a pure pass-through and is checked as such; trusted: TLC, harness/l2capsdu, "
            "clang/ASan field padding.",
    "technique": "TLA+ model checking (TLC) + model-generated and enumerated behaviours replayed on the real class under "
                 "ASan + TLC trace validation",
    "design_ref": "5.4"}}

JOBS = 4
ASAN = {"ASAN_OPTIONS": "detect_leaks=0:exitcode=99:symbolize=0:allocator_may_return_null=1", "UBSAN_OPTIONS": "symbolize=0"}
CONST_TAIL = "Pdus = {}  Frames = {}  MaxPs = {}  MaxQ = 0"


# ------------------------------------------------------------------------------------------
# behaviours -> scripts
# ------------------------------------------------------------------------------------------
def alphabet(m):
    """PDUs a central may send, relative to MTU m: (llid, n, L).  Well-formed and malformed ones."""
    nb = min(27, m + 1)                        # a long first fragment
    letters = [
        (3, 2, 0),                             # LL control PDU
        (2, 3, 0),                             # start fragment too short for an L2CAP header
        (2, 9, 5),                             # complete frame in one PDU (L + 4 = n)
        (2, 10, 2),                            # start fragment with more bytes than announced
        (2, 4, 1),                             # first fragment: header only, 1 byte missing
        (2, nb, nb - 1),                       # long first fragment, 3 bytes missing
        (2, nb, m),                            # first fragment of a maximum size frame
        (2, 9, m + 1),                         # first fragment of a frame that is larger than the MTU
        (1, 0, 0),                             # empty continuation
        (1, 1, 0),                             # continuation, 1 byte
        (1, 3, 0),                             # 3 bytes: completes the long first fragment
        (1, 4, 0),                             # one byte more than that
        (1, min(27, m + 4), 0),                # full size continuation
    ]
    res = []
    for x in letters:
        if x not in res:
            res.append(x)
    return res


def rx_line(p, fill):
    return "rx %d %d %d 4 %d" % (p[0], p[1], p[2], fill)


STYLES = ("eager", "batch")


def rx_exec(m, oh, seq, style):
    """one execution for the PDU sequence seq: eager = look (next/free twice) after every PDU; batch = all PDUs first"""
    lines = ["reset %d %d 27" % (m, oh)]
    fill = 1
    if style == "eager":
        for p in seq:
            lines += [rx_line(p, fill), "next", "free", "next", "free"]
            fill += p[1] + 1
    else:
        for p in seq:
            lines.append(rx_line(p, fill))
            fill += p[1] + 1
        lines += ["next", "free"] * (len(seq) + 1)
    return lines


def tx_grid(m, oh, quick):
    execs = []
    sizes = sorted(set(x for x in (0, 1, 19, 22, 23, 24, 40, 60, m - 1, m) if 0 <= x <= m))
    if quick:
        sizes = sorted(set(x for x in (0, 23, 24, m - 1, m) if 0 <= x <= m))
    for n in sizes:
        for maxp in (27, 50, 251):
            for bufs in (0, 1, 2, 20):
                lines = ["reset %d %d %d" % (m, oh, maxp), "bufs %d" % bufs, "txsdu %d 4 7" % n, "next", "txsdu 3 4 99",
                         "bufs 1", "next", "maxtx %d" % (27 if maxp != 27 else 40), "bufs 1", "llsend 2 200", "bufs 2", "free",
                         "drain", "txsdu %d 5 50" % min(m, 30), "drain"]
                execs.append(lines)
    return execs


def behaviour_script(b):
    return [" ".join(str(x) for x in op) for op in b]


def impl_script(m, oh, b):
    lines = ["reset %d %d 27" % (m, oh)]
    fill = 1
    for op in b:
        if op[0] == "rx":
            lines.append("rx %d %d %d 4 %d" % (op[1], op[2], op[3], fill))
            fill += op[2] + 1
        else:
            lines.append(op[0])
    return lines


# ------------------------------------------------------------------------------------------
# running + validating
# ------------------------------------------------------------------------------------------
def parse_mismatches(out):
    """<<"MISMATCH", l, "event", {causes}>> lines of the trace specification -> {l: (event, [causes])}"""
    res = {}
    for line in out.splitlines():
        line = line.strip()
        if line.startswith('<<"MISMATCH"'):
            t = vlib.parse_tla_value(line)
            if t:
                res[int(t[1])] = (t[2], sorted(t[3]))
    return res


def result_class(ev):
    e = ev.get("e")
    if e == "next":
        return "next:%s" % ("llid%d" % ev["llid"] if ev.get("r") else "none")
    if e == "free":
        return "free:qlen"
    if e == "Crash":
        return "crash"
    if e == "txalloc":
        return "txalloc:r=%s" % ev.get("r")
    return str(e)


def report(c, what, ev, causes, case):
    """signature = <event>:<result class>:<cause>.  cause = class of the abnormal PDU(s) the central sent before, computed by
    the trace specification.  With several candidate causes the one with a known finding of the same kind is named (a failure
    without any abnormal PDU, or with unknown causes only, is never matched)."""
    rc = result_class(ev)
    if ev.get("e") in ("txalloc", "txcommit", "llsend", "drain", "bufs", "maxtx"):
        causes = []                             # transmit side calls: what the central sent does not matter
    cands = causes or ["-"]
    known = [k["signature"] for k in c.known if k.get("status") == "known"]
    pick = None
    for cause in cands:
        if any(vlib.sig_match(k, "%s:%s" % (rc, cause)) for k in known):
            pick = cause
            break
    sig = "%s:%s" % (rc, pick if pick is not None else "+".join(cands))
    c.finding(sig, "%s: %s (abnormal PDUs before: %s)" % (what, {k: v for k, v in ev.items() if k not in ("tx",)}, causes or "none"), case)


def run_batch(c, exe, tag, execs, counts, kind):
    """execs: list of executions (each a list of script lines starting with reset). Split over JOBS harness+TLC runs."""
    parts = vlib.chunks(execs, JOBS)

    def one(i):
        part = parts[i]
        sp = vlib.write_lines(os.path.join(c.build_dir, "s_%s%d.txt" % (tag, i)), [l for e in part for l in e])
        tp = os.path.join(c.build_dir, "t_%s%d.ndjson" % (tag, i))
        rc, out = vlib.run_harness(exe, [sp, tp], env=ASAN, timeout=1800)
        if rc != 0:
            raise vlib.ToolFailure("harness failed rc=%d: %s" % (rc, out[-2000:]))
        v = vlib.validate_trace("L2capSdu", "L2capSduTrace.tla", "Trace.cfg", tp, heap="4g", timeout=1800)
        return part, tp, v
    with ThreadPoolExecutor(JOBS) as ex:
        results = list(ex.map(one, range(len(parts))))
    n_crash = 0
    failed = set()
    base = 0
    for part, tp, v in results:
        execs_ev = vlib.split_executions(tp)
        if len(execs_ev) != len(part):
            raise vlib.ToolFailure("%s: %d executions in the script, %d in the trace" % (tag, len(part), len(execs_ev)))
        c.add_traces(len(part), v.events)
        for _, evs in execs_ev:
            for ev in evs:
                counts[ev["e"]] = counts.get(ev["e"], 0) + 1
        mm = parse_mismatches(v.out)
        for ln in v.mismatch_lines:
            idx = max(i for i, (first, _) in enumerate(execs_ev) if first <= ln)
            first, evs = execs_ev[idx]
            ev = evs[ln - first]
            if ev["e"] != "Crash" and ln - first + 1 < len(evs) and evs[ln - first + 1]["e"] == "Crash":
                ev = evs[ln - first + 1]       # the call that returned the unexplained result also damaged memory: report that
            if ev["e"] == "Crash":
                n_crash += 1
            failed.add(base + idx)
            report(c, "ll_l2cap_sdu_buffer<MTU %s, overhead %s> (%s)" % (evs[0].get("mtu"), evs[0].get("oh"), kind),
                   ev, mm.get(ln, ("", []))[1], {"script": part[idx], "failing_event": ln - first + 1})
        base += len(part)
    return n_crash, failed


def run(c):
    c.assumptions += [
        "the radio below is a plain FIFO of received PDUs and a counter of free transmit buffers; next_received()/free_received()/"
        "allocate_transmit_buffer()/commit_transmit_buffer()/max_tx_size() as in tests/link_layer/ll_l2cap_sdu_buffer_tests.cpp",
        "max_tx_size() is the in-memory size of the largest transmit PDU (header + payload + layout overhead), as in the "
        "repository's own radio mock",
        "a start fragment always ends the reassembly of the SDU before it; a frame with more bytes than announced may be "
        "dropped or delivered cut to the announced length",
        "MTU 23 instantiates the pass-through specialisation: every PDU is handed up unchanged (checked as such)",
        "memory safety is decided by AddressSanitizer (heap redzones around the exact-size object, intra-object redzones "
        "between its members) and UBSan on the executed behaviours"]
    exe = vlib.build(c, "l2capsdu", ["l2capsdu/l2capsdu_harness.cpp", "l2capsdu/sanitizer_hooks.cpp"], compiler="clang++",
                     flags=["-fsanitize-address-field-padding=1"])
    if c.replay:
        return replay(c, exe)
    counts = {}

    # 1. design level
    vlib.model_check(c, "L2capSdu", "L2capSdu.tla", "MC.cfg", workers=JOBS)
    vlib.model_check(c, "L2capSdu", "L2capSdu.tla", "MCTx.cfg", workers=JOBS)
    r = vlib.model_check(c, "L2capSdu", "L2capSduImpl.tla", "MCImpl.cfg", must_hold=False, workers=JOBS, coverage=False)
    c.extra["model_level_findings"] = []
    if r.violated:
        m = re.search(r'hist = (<<.*?>>)\n', r.out[r.out.rfind("hist ="):] + "\n")
        c.extra["model_level_findings"].append(
            "L2capSduImpl violates %s: shortest PDU sequence that writes past receive_buffer_: %s"
            % (r.violated, m.group(1) if m else "(see replayed overflow histories)"))

    # 2. overflow histories of the implementation-shaped model, replayed on the real class
    impl_cfgs = [(8, 0, range(0, 11), range(0, 11), 4 if c.quick else 6)]
    for m in ((24, 65) if c.quick else (24, 40, 65, 247)):
        if m < 100:
            impl_cfgs.append((m, 1 if m != 40 else 0, (0, 1, 3, 4, 5, 12, 23, 27), (0, 1, 8, 23, m - 1, m, m + 1), 4))
        else:       # many fragments are needed to fill a large buffer: longer histories over a smaller alphabet
            impl_cfgs.append((m, 1, (0, 4, 27), (0, 23, m - 1, m, m + 1), 10))

    def gen_impl(cfg):
        m, oh, ns, ls, maxrx = cfg
        path = vlib.write_cfg(c, "genimpl_%d.cfg" % m,
                              "CONSTANTS MTU = %d  OH = %d  Ns = {%s}  Ls = {%s}  MaxRx = %d  D = %d\n"
                              "SPECIFICATION ISpec\nVIEW View\nINVARIANTS EmitOverflow\nCHECK_DEADLOCK FALSE\n"
                              % (m, oh, ",".join(map(str, ns)), ",".join(map(str, ls)), maxrx, 3 * maxrx))
        r = vlib.tlc("L2capSdu", "L2capSduImpl.tla", path, workers=2, heap="4g")
        if r.violated or r.error:
            raise vlib.ToolFailure("overflow generator failed for MTU %d: %s %s\n%s" % (m, r.violated, r.error, r.out[-2000:]))
        return cfg, r
    with ThreadPoolExecutor(JOBS) as ex:
        gens = list(ex.map(gen_impl, impl_cfgs))
    execs = []
    for (m, oh, ns, ls, maxrx), r in gens:
        behs = vlib.behaviours(r)
        c.add_model_run("L2capSduImpl(generator)", "MTU=%d OH=%d" % (m, oh), r)
        cap = 25 if c.quick else 250
        behs.sort(key=len)
        step = max(1, len(behs) // cap)
        behs_used = behs[::step][:cap]               # spread over short and long histories
        execs += [impl_script(m, oh, b) for b in behs_used]
        c.extra.setdefault("overflow_histories", {})["MTU %d" % m] = {"distinct_overflow_states": len(behs), "replayed": len(behs_used)}
        if behs and m == 24:
            c.sample({"what": "model-generated overflow history (MTU 24)", "behaviour": behs[0]})
    n_crash, _ = run_batch(c, exe, "ovf", execs, counts, "model overflow history")
    c.extra["overflow_histories"]["replayed_total"] = len(execs)
    c.extra["overflow_histories"]["crashed_on_real_code"] = n_crash
    if execs and n_crash < len(execs):
        c.note("MODEL-DRIFT: %d of %d overflow histories of L2capSduImpl did not crash the real class" % (len(execs) - n_crash, len(execs)))

    # 3. receive side: every PDU sequence up to length k over the alphabet (enumerated by this module: a plain grid),
    #    level by level: a sequence the real code already failed on is not extended (its extensions fail the same way)
    plan = [(8, 0, 3), (24, 1, 2)] if c.quick else [(8, 0, 4), (24, 1, 3), (24, 0, 2), (40, 0, 3), (65, 1, 3), (247, 1, 3), (23, 0, 2)]
    alive = {(m, oh, st): [()] for m, oh, k in plan for st in STYLES}
    stats = {(m, oh): {"MTU": m, "overhead": oh, "max_sequence_length": k, "alphabet": alphabet(m), "executions": 0,
                       "sequences_not_extended_after_failure": 0} for m, oh, k in plan}
    for level in range(1, max(k for _, _, k in plan) + 1):
        execs, keys = [], []
        for m, oh, k in plan:
            if k < level:
                continue
            for st in STYLES:
                for prefix in alive[(m, oh, st)]:
                    for letter in alphabet(m):
                        keys.append((m, oh, st, prefix + (letter,)))
                        execs.append(rx_exec(m, oh, prefix + (letter,), st))
        if level == 2:
            c.sample({"what": "one enumerated receive execution", "script": execs[len(execs) // 2]})
        _, failed = run_batch(c, exe, "rx%d_" % level, execs, counts, "rx grid")
        for key in alive:
            alive[key] = []
        for i, (m, oh, st, seq) in enumerate(keys):
            stats[(m, oh)]["executions"] += 1
            if i in failed:
                stats[(m, oh)]["sequences_not_extended_after_failure"] += 1
            else:
                alive[(m, oh, st)].append(seq)
    c.extra["rx_grid"] = {"rule": "all PDU sequences over the alphabet (llid, body length, announced L) x {eager, batch} driver, "
                                  "enumerated in python level by level; sequences that already failed are not extended",
                          "configs": list(stats.values())}
    c.exhaustive = True

    # 4. transmit side grid
    txe = []
    for m in ((23, 24, 65, 247) if c.quick else (23, 24, 40, 65, 100, 247)):
        for oh in (0, 1):
            txe += tx_grid(m, oh, c.quick)
    c.extra["tx_grid"] = {"executions": len(txe), "rule": "SDU sizes x max payload {27,50,251} x free radio buffers {0,1,2,20}, enumerated in python"}
    run_batch(c, exe, "tx", txe, counts, "tx grid")

    # 5. random mixed histories generated by TLC
    nsim, dsim = (120, 30) if c.quick else (2000, 50)
    sims = []
    for big in ("FALSE", "TRUE"):
        cfg = vlib.write_cfg(c, "sim_%s.cfg" % big, "CONSTANTS Mtus = {23, 24, 40, 65, 247}  %s  D = %d  BigPdus = %s\n"
                             "SPECIFICATION GSpec\nINVARIANTS Emit\nCHECK_DEADLOCK FALSE\n" % (CONST_TAIL, dsim, big))
        n = nsim if big == "FALSE" else nsim // 4
        behs = vlib.generate(c, "L2capSdu", "L2capSduGen.tla", cfg, simulate=(n + JOBS - 1) // JOBS, depth=2 * dsim + 8,
                             seed=c.seed, workers=JOBS)[:n]
        sims += [behaviour_script(b) + ["drain"] for b in behs]
        if big == "FALSE":
            c.sample({"what": "random mixed history", "behaviour": behs[0]})
    c.extra["simulated"] = {"behaviours": len(sims), "operations_each": dsim}
    run_batch(c, exe, "sim", sims, counts, "simulated history")

    c.extra["events_by_action"] = counts
    for need in ("Reset", "rx", "next", "free", "bufs", "maxtx", "txalloc", "txcommit", "llsend", "drain"):
        if not counts.get(need):
            raise vlib.ToolFailure("vacuous: no %s event was validated" % need)


def replay(c, exe):
    case = json.load(open(c.replay))["case"]
    vlib.model_check(c, "L2capSdu", "L2capSdu.tla", "MCTx.cfg", workers=JOBS)    # the oracle itself, for the evidence record
    sp = vlib.write_lines(os.path.join(c.build_dir, "replay.txt"), case["script"])
    tp = os.path.join(c.build_dir, "replay.ndjson")
    env = dict(ASAN)
    env["ASAN_OPTIONS"] = env["ASAN_OPTIONS"].replace("symbolize=0", "symbolize=1")
    rc, out = vlib.run_harness(exe, [sp, tp], env=env)
    for line in out.splitlines():
        if "ERROR: AddressSanitizer" in line or "SUMMARY" in line or "runtime error" in line or re.match(r"\s+#[0-9] ", line):
            c.note(line.strip()[:300])
    v = vlib.validate_trace("L2capSdu", "L2capSduTrace.tla", "Trace.cfg", tp)
    evs = vlib.read_ndjson(tp)
    c.add_traces(1, v.events)
    c.sample([{k: x for k, x in ev.items() if k != "tx"} for ev in evs[-6:]])
    mm = parse_mismatches(v.out)
    for ln in v.mismatch_lines:
        ev = evs[ln - 1]
        if ev["e"] != "Crash" and ln < len(evs) and evs[ln]["e"] == "Crash":
            ev = evs[ln]
        report(c, "replayed case", ev, mm.get(ln, ("", []))[1], case)
    if not v.mismatch_lines:
        c.note("replayed case is accepted by the specification")
