"""C02 - discovery returns exactly the in-range matching attributes;  C03 - primary service discovery never reports
secondary services.

spec/Gatt/AttDiscovery.tla    allowed responses of Find Information / Read By Type / Read By Group Type / Find By Type
                              Value on the table GattDb!Build(decl) (non-empty prefix rule, error rules, group ends)
spec/Gatt/AttDiscoveryMC.tla  design level: every allowed server x the iterating client => enumeration, soundness, C03
spec/Gatt/GattTrace.tla       trace validation of the recorded requests (Req) and client enumerations (Enum)
harness/gatt                  generic harness, one binary per generated server
"""
import json
import threading

import vlib
from checks import _gatt

PROPS = ["C02", "C03"]
_TECH = "TLA+ specification of ATT discovery model checked with TLC + complete request sweeps on generated C++ servers + TLC trace validation"
META = {
    "C02": {
        "text": "AttDiscovery.tla defines, for the attribute table GattDb!Build(decl), the set of allowed responses to Find "
                "Information, Read By Type and Read By Group Type (Invalid Handle iff start = 0 or start > end, Attribute Not "
                "Found iff nothing matches, otherwise a non-empty prefix of the in-range matching attributes in ascending order, "
                "one format, within the MTU); TLC proves on the model that any such server lets an iterating client enumerate "
                "every match exactly once. For every corner (and sampled) declaration a real server is compiled and the "
                "complete sweep start, end in {0..maxHandle+2, 0xFFFF} x every attribute type of the table + absent types x "
                "opcodes x MTU {23, server max} plus the client-side enumeration from every start is executed and every "
                "request/response pair is validated by TLC. For every UUID of the table the 128 bit base-UUID alias (must "
                "behave like the 16 bit form) and near aliases (non-zero top 16 bits, one flipped bit per UUID group; must "
                "never match) are requested on the whole table and on every single handle.",
        "note": "corner declarations in quick, + TLC-sampled declarations in thorough; unencrypted link; attributes that are "
                "not readable may be skipped or end a Read By Type list (property is silent); error handle field unconstrained; "
                "trusted: TLC, gen_server.py, harness/gatt, g++/ASan.",
        "technique": _TECH, "design_ref": "5.1"},
    "C03": {
        "text": "Same specification and sweep restricted to primary service discovery: Read By Group Type <<Primary Service>> and "
                "Find By Type Value <<Primary Service>> + every service UUID of the declaration (16 and 128 bit, UUIDs shared by "
                "a primary and a secondary service, absent UUIDs) over all start/end pairs and MTU {23, server max}; allowed "
                "responses contain exactly a non-empty prefix of the *primary* services in range with group end = last attribute "
                "of the service; TLC validates every recorded response and every client-side enumeration. Values next to every "
                "service UUID (128 bit alias, near aliases, a 16 byte value that only starts with a 16 bit UUID, one-bit "
                "neighbours and 2 byte fragments of 128 bit UUIDs) are searched on the whole table and every single handle.",
        "note": "corner declarations mix primary/secondary in every order; thorough adds TLC-sampled declarations; Read By Group "
                "Type <<Secondary Service>> may be answered or rejected; trusted: TLC, gen_server.py, harness/gatt, g++/ASan.",
        "technique": _TECH, "design_ref": "5.1"}}

N_SAMPLED = {"quick": 0, "thorough": 24}
ABSENT16 = [0xF0, 0xFF]
ABSENT128 = [0x11] * 16
BASE = [0xFB, 0x34, 0x9B, 0x5F, 0x80, 0x00, 0x00, 0x80, 0x00, 0x10, 0x00, 0x00]
U_PRIMARY, U_SECONDARY, U_CHAR = [0x00, 0x28], [0x01, 0x28], [0x03, 0x28]
CHUNK = 12000          # requests per harness run / trace file


def le16(h):
    return [h & 0xff, h >> 8]


def uniq(lists):
    out = []
    for x in lists:
        if x not in out:
            out.append(x)
    return out


def grid(srv):
    """handle grid and attribute types of the table - taken from TLC's evaluation of GattDb (GattDbGen), not recomputed"""
    t = srv.table
    return list(range(0, t["maxHandle"] + 3)) + [0xFFFF], uniq(t["types"]), uniq(t["svcUuids"])


def alias128(t16):
    """0000TTTT-0000-1000-8000-00805F9B34FB, little endian"""
    return BASE + t16 + [0, 0]


def flip(u, i):
    v = list(u)
    v[i] ^= 1
    return v


def near_aliases(t16):
    """128 bit values that are NOT the type t16: non-zero top 16 bits, one flipped bit in each other group of the base UUID"""
    a = alias128(t16)
    return [BASE + t16 + [0x34, 0x12], flip(a, 0), flip(a, 6), flip(a, 8), flip(a, 10)]


def near_128(u):
    """128 bit values one bit away from the 128 bit UUID u (one per group of the textual form)"""
    return [flip(u, 0), flip(u, 6), flip(u, 8), flip(u, 10), flip(u, 12)]


def spot_ranges(srv):
    """ranges for the alias / near-alias types and values: whole table, exact table, every single handle"""
    t = srv.table
    return uniq([(1, 0xFFFF), (1, t["maxHandle"])] + [(h, h) for h in t["handles"]])


def alias_requests(prop, srv):
    """for every UUID of the table its 128 bit alias (must behave like the 16 bit form) and near aliases (must never
    match); a general product over the table's types / service UUIDs x spot_ranges, no knowledge of the implementation"""
    _, types, svcs = grid(srv)
    reqs = []
    for s, e in spot_ranges(srv):
        rng = le16(s) + le16(e)
        if prop == "C02":
            for ty in types:
                variants = ([alias128(ty)] + near_aliases(ty)) if len(ty) == 2 else near_128(ty)
                for v in variants:
                    reqs.append([0x08] + rng + v)
            for v in near_aliases(U_PRIMARY):
                reqs.append([0x10] + rng + v)
        else:
            for u in svcs:
                if len(u) == 2:
                    # alias (may match), near aliases and a 16 byte value that merely starts with the UUID (never match)
                    values = [alias128(u)] + near_aliases(u) + [u + [0x5A] * 14]
                else:
                    values = near_128(u) + [u[0:2], u[12:14]]
                for v in values:
                    reqs.append([0x06] + rng + U_PRIMARY + v)
    return reqs


def requests(prop, srv):
    """the complete request grid (a plain cartesian product, enumerated here): list of byte lists"""
    hs, types, svcs = grid(srv)
    reqs = []
    pairs = [(s, e) for s in hs for e in hs]
    if prop == "C02":
        rbt_types = types + [ABSENT16, ABSENT128, BASE + U_CHAR + [0, 0]]
        grp_types = [U_PRIMARY, U_SECONDARY, U_CHAR, ABSENT128]
        for s, e in pairs:
            reqs.append([0x04] + le16(s) + le16(e))
            for ty in rbt_types:
                reqs.append([0x08] + le16(s) + le16(e) + ty)
            for ty in grp_types:
                reqs.append([0x10] + le16(s) + le16(e) + ty)
    else:
        values = svcs + [ABSENT16, ABSENT128]
        for s, e in pairs:
            reqs.append([0x10] + le16(s) + le16(e) + U_PRIMARY)
            for v in values:
                reqs.append([0x06] + le16(s) + le16(e) + U_PRIMARY + v)
            if svcs:
                reqs.append([0x06] + le16(s) + le16(e) + U_SECONDARY + svcs[0])
    return reqs


def enum_requests(prop, srv, quick):
    """client side enumerations: every start, ends = every handle (thorough) or the last handle / beyond / 0xFFFF (quick)"""
    hs, _, _ = grid(srv)
    mh = srv.table["maxHandle"]
    ends = hs if not quick else [h for h in hs if h >= mh - 1]
    keep = {(s, e) for s in hs for e in ends if 0 < s <= e}
    return [r for r in requests(prop, srv) if (r[1] | r[2] << 8, r[3] | r[4] << 8) in keep]


def scripts(prop, srv, quick):
    """-> list of (tag, lines); every script starts with reset (+ Exchange MTU for the large MTU runs)"""
    out = []
    big = _gatt.big_mtu(srv)
    for mtu in [23] + ([big] if big > 23 else []):
        head = ["reset"] + (["mtu 0 %d" % mtu] if mtu > 23 else [])
        lines = ["req 0 " + " ".join(str(b) for b in r) for r in requests(prop, srv) + alias_requests(prop, srv)]
        lines += ["enum 0 " + " ".join(str(b) for b in r) for r in enum_requests(prop, srv, quick)]
        for i, part in enumerate(vlib.chunks(lines, max(1, (len(lines) + CHUNK - 1) // CHUNK))):
            out.append(("%s_m%d_%d" % (prop, mtu, i), head + part))
    return out


def signature(ev, why):
    """[inc|]<opcode name or Enum:opcode>|<sorted diagnosis tags computed by GattTrace!Why>
    the prefix inc| marks servers whose declaration contains include_service<> (their real table is broken, see C04)"""
    name, ctx, tags = why
    return "%s%s|%s" % ("inc|" if ctx == "inc" else "", name, ",".join(tags))


def script_for_event(srv, ev):
    head = ["reset"] + (["mtu 0 %d" % ev["mtu"]] if ev.get("mtu", 23) > 23 else [])
    if ev.get("e") in ("Req", "Enum"):
        return head + ["%s 0 %s" % ("req" if ev["e"] == "Req" else "enum", " ".join(str(b) for b in ev["in"]))]
    return head


def report(c, srv, mismatches):
    for tp, ln, ev, why in mismatches:
        c.finding(signature(ev, why),
                  "server %s: %s is not allowed by AttDiscovery for the table of the declaration (%s)"
                  % (srv.name, json.dumps(ev)[:400], why),
                  {"decl": srv.decl, "script": script_for_event(srv, ev), "event": ev})


def run(c):
    prop = c.prop
    c.assumptions += ["unencrypted link, one client; values are never written during the sweep (table values = initial values)",
                      "Read By Type: an unreadable matching attribute may be skipped or end the list (property is silent)",
                      "declaration format of spec/Gatt/README.md"]
    if c.replay:
        return replay(c)
    # design level check, in the background while the servers compile
    mc = {}

    def model():
        try:
            mc["r"] = vlib.tlc(_gatt.SPEC_DIR, "AttDiscoveryMC.tla", "DiscMC.cfg" if c.quick else "DiscMCThorough.cfg",
                               workers=4, timeout=2400)
        except Exception as e:          # noqa: BLE001
            mc["e"] = e
    th = threading.Thread(target=model)
    th.start()
    servers = _gatt.prepare(c, _gatt.load_decls(c, N_SAMPLED[c.tier]))
    _gatt.build_servers(c, servers)
    c.extra["declarations"] = [_gatt.decl_summary(s) for s in servers]
    c.extra["rule"] = ("request grid = cartesian product (start, end in {0..maxHandle+2, 0xFFFF}) x attribute types of the table "
                      "(from TLC's GattDbGen) + absent types x opcodes x MTU, enumerated by checks/gatt_discovery.py; "
                      "declarations: corner list + TLC -simulate of GattDeclGen.tla seeded by VERIF_SEED")
    jobs, owner = [], {}
    for s in servers:
        for tag, lines in scripts(prop, s, c.quick):
            jobs.append((s, tag, lines))
    traces = _gatt.run_scripts(c, jobs)
    for (s, _, _), tp in zip(jobs, traces):
        owner[tp] = s
    counts = _gatt.count_events(traces, {})
    c.extra["events_by_action"] = counts
    need = ["Req:0x04", "Req:0x08", "Req:0x10", "Enum:0x08"] if prop == "C02" else ["Req:0x10", "Req:0x06", "Enum:0x10", "Enum:0x06"]
    for k in need:
        if not counts.get(k):
            raise vlib.ToolFailure("vacuous: no %s event recorded" % k)
    mism = _gatt.validate(c, traces)
    th.join()
    if "e" in mc:
        raise mc["e"]
    r = mc["r"]
    c.add_model_run("AttDiscoveryMC", "DiscMC.cfg" if c.quick else "DiscMCThorough.cfg", r)
    if r.violated or r.error or not r.completed:
        raise vlib.ToolFailure("AttDiscoveryMC failed: violated=%s error=%s\n%s" % (r.violated, r.error, r.out[-3000:]))
    for m in mism:
        report(c, owner[m[0]], [m])
    ok = [e for e in vlib.read_ndjson(traces[0]) if e.get("e") == "Req"]
    c.sample({"declaration": servers[0].name, "events": ok[:3] + ok[-2:]})
    c.sample({"declaration": servers[-1].name, "events": [e for e in vlib.read_ndjson(traces[-1]) if e.get("e") == "Enum"][:3]})
    c.exhaustive = False


def replay(c):
    case = json.load(open(c.replay))["case"]
    servers = _gatt.prepare(c, [case["decl"]])
    _gatt.build_servers(c, servers)
    tp = _gatt.run_script(c, servers[0], "replay", case["script"])
    mism = _gatt.validate(c, [tp])
    c.sample(vlib.read_ndjson(tp)[-3:])
    report(c, servers[0], mism)
