"""C15, C16, C17 - link layer data PDU buffer: SN/NESN reliable delivery, packet counters, MIC failures.

spec/LLData/LLData.tla        property-level model: central (environment) + lossy channel + peripheral buffer + upper
                              layer; the peripheral's obligations per received PDU (Answer) and the end-to-end
                              invariants (DeliveredPrefix, AckOnlyAfterReceipt, NoAckWithoutStore, counters in step ...)
spec/LLData/LLDataImpl.tla    implementation-shaped model (members and decision structure of the real class); the same
                              invariants are checked on it; with acknowledge(pdu) as it is TLC finds the C17 history
spec/LLData/LLDataGen.tla     behaviour generator (environment scripts): all behaviours to depth D, one behaviour per
                              model state / per (operation, state), random deep ones
spec/LLData/LLDataTrace.tla   trace validation of the recorded steps of the real class
harness/lldata                mock_radio : ll_data_pdu_buffer<Tx, Rx, mock_radio>; plays central, channel, upper layer

The three properties share the model and the harness; they differ in the fault alphabet of the generated behaviours:
  C15 "plain"  lost / CRC error / no buffer, no MIC failures; additionally the room rule (an empty buffer accepts a PDU)
  C16 "enc"    encrypted link: the MIC of a data PDU fails iff the buffer's receive packet counter differs from the
               PDU's packet counter (a retransmission of a PDU that was already accepted and counted)
  C17 "any"    a MIC failure can hit any non-empty PDU
"""
import json
import os
import re
from concurrent.futures import ThreadPoolExecutor

import vlib

PROPS = ["C15", "C16", "C17"]
_TECH = "TLA+ model checking (TLC) + TLC-generated behaviours replayed on the real class + TLC trace validation"
_NOTE = ("bounded: 2-3 PDUs per direction in the exhaustive model (no bound on connection events), behaviours to "
         "depth 5/6 exhaustively + state/transition covers of the bounded model + random deep ones; Tx/Rx in {31,61,100}, "
         "default PDU layout; radio ISR dispatch transcribed from nrf52.hpp (assumption isr-dispatch), the ISR itself and "
         "nrf52.cpp counter::increment are not executed; the central also sends the reserved LLID 0 (with and without "
         "payload; the spec leaves open whether such a PDU is refused, kept or dropped, but demands that it is counted "
         "when it is acknowledged); sequential (no ISR/main "
         "interleaving inside a call); trusted: TLC, harness/lldata, g++/ASan.")
META = {
    "C15": {"text": "TLC explores the complete state graph of the SN/NESN model (central + lossy channel + peripheral buffer, "
                    "2-3 PDUs per direction, each with a valid or the reserved LLID, receive capacity 1-2, any number of connection events) with the delivery "
                    "invariants; TLC-generated loss/CRC/no-buffer/retransmission patterns are replayed on the real "
                    "ll_data_pdu_buffer through its protected radio interface and every recorded connection event, "
                    "commit and read is validated by TLC against the model (answer header, retransmission content, "
                    "delivery order, payload integrity).",
            "note": _NOTE, "technique": _TECH, "design_ref": "5.4"},
    "C16": {"text": "Same model and harness; the model states that the receive/transmit packet counters equal the ghost "
                    "CCM counters of the PDUs (one step per new non-empty PDU / acknowledged non-empty PDU); behaviours of "
                    "an encrypted link (retransmissions of accepted PDUs fail their MIC) are replayed on the real buffer "
                    "and the counter callbacks per connection event are validated by TLC.",
            "note": _NOTE, "technique": _TECH, "design_ref": "5.4"},
    "C17": {"text": "Same model and harness; MIC failures are placed at every position of the PDU stream (new PDUs and "
                    "retransmissions, with and without pending acknowledgement); the model demands that NESN only moves "
                    "when the PDU was stored; the real acknowledge(read_buffer) path is driven as the nRF52 ISR does and "
                    "validated by TLC.",
            "note": _NOTE, "technique": _TECH, "design_ref": "5.4"},
}

MODE = {"C15": "plain", "C16": "enc", "C17": "any"}
# which fault alphabet (generator Mode) feeds which behaviour set; st/cov: (Mode, Cover)
RECIPE = {
    "C15": {"all": ["plain"], "st": ("plain", "state"), "cov": ("plain", "state"), "sim": ["plain"]},
    # C16: encrypted link (retransmissions fail their MIC and take the acknowledge(pdu) path) and plain link
    #      (retransmissions reach received()) - the counter callbacks must be right on both paths
    "C16": {"all": ["enc", "plain"], "st": ("enc", "mic"), "cov": ("plain", "state"), "sim": ["enc", "plain"]},
    # C17: MIC failures anywhere; half of the random behaviours with MIC failures on retransmissions only (they
    #      survive the known finding and are validated to the end)
    "C17": {"all": ["any"], "st": ("any", "mic"), "cov": ("any", "mic"), "sim": ["any", "enc"]},
}
JOBS = int(os.environ.get("VERIF_JOBS", "6"))
# payload lengths: small ones plus the values around every bit boundary of the 8 bit length field
LENS = [1, 27, 5, 32, 2, 13, 64, 26, 31, 3, 33, 9, 96, 20, 63, 65, 16, 128, 127, 8]
INVS = "INVARIANTS TraceInv\n"


def consts(maxc, maxp, rxcap, txcap, room=True, extra=""):
    return ("CONSTANTS MaxC = %d  MaxP = %d  RxCap = %d  TxCap = %d  RoomRule = %s %s\n"
            % (maxc, maxp, rxcap, txcap, "TRUE" if room else "FALSE", extra))


def trace_cfg(c, room):
    return vlib.write_cfg(c, "trace_%s.cfg" % ("room" if room else "noroom"),
                          consts(100000, 100000, 100000, 100000, room) + "SPECIFICATION TSpec\n" + INVS + "CHECK_DEADLOCK FALSE\n")


def drop_prefixes(behs):
    """remove behaviours that are a proper prefix of another one (cover modes print every state)"""
    keyed = sorted(set(tuple(tuple(op) for op in b) for b in behs))
    out = []
    for i, b in enumerate(keyed):
        if i + 1 < len(keyed) and keyed[i + 1][:len(b)] == b:
            continue
        out.append([list(op) for op in b])
    return out


def gen(c, name, maxc, maxp, rxcap, txcap, d, mode, cover, simulate=None, workers=4):
    view = {"state": "VIEW GViewState\n", "trans": "VIEW GViewTrans\n", "mic": "VIEW GViewMic\n"}.get(cover, "")
    cfg = vlib.write_cfg(c, "gen_%s.cfg" % name,
                         consts(maxc, maxp, rxcap, txcap, True, 'D = %d  Mode = "%s"  Cover = "%s"' % (d, mode, cover)) +
                         "SPECIFICATION GSpec\nINVARIANTS Emit\n" + view + "CHECK_DEADLOCK FALSE\n")
    if simulate:
        behs = vlib.generate(c, "LLData", "LLDataGen.tla", cfg, simulate=max(1, simulate // workers), depth=d + 1,
                             seed=c.seed, workers=workers)[:simulate]
    else:
        behs = vlib.generate(c, "LLData", "LLDataGen.tla", cfg, workers=workers)
    n = len(behs)
    if cover in ("state", "trans", "mic"):
        behs = drop_prefixes(behs)
    c.note("generated %s: %d behaviours (%d printed), %d ops" % (name, len(behs), n, sum(len(b) for b in behs)))
    return behs


def variants(tx, rx):
    """(max_rx_size, max_tx_size) settings used after reset; 0 = default 29"""
    v = [(0, 0)]
    if rx >= 61 or tx >= 61:
        v.append((rx // 2 if rx >= 61 else 0, tx // 2 if tx >= 61 else 0))
        v.append((rx if rx >= 61 else 0, tx if tx >= 61 else 0))
    return v


def tight(tx, rx, var):
    """a buffer smaller than two maximum sized PDUs (the ring cannot always place a PDU of maximum size)"""
    return tx < 2 * (var[1] or 29) or rx < 2 * (var[0] or 29)


def script_of(beh, i, var):
    """environment script for behaviour number i. Lengths, LLIDs, allocation style, fresh object / reset_pdu_buffer
    are a plain rotation (grid), not part of the model; var = (max_rx_size, max_tx_size) setting."""
    mrx, mtx = var
    lines = ["reset %d %d %d" % (1 if i % 3 == 0 else 0, mrx, mtx)]
    crange = [x for x in LENS + [(mrx or 29) - 2] if x <= (mrx or 29) - 2]
    prange = [x for x in LENS + [(mtx or 29) - 2] if x <= (mtx or 29) - 2]
    for j, op in enumerate(beh):
        k = i + j
        if op[0] == "commit":
            lines.append("commit %d %d %d" % (prange[k % len(prange)], (2, 1, 3)[k % 3], (k // 2) % 2))
        elif op[0] == "read":
            lines.append("read")
        elif op[0] == "x":
            # op[2]: 0 empty, 1 data (LLID 1..3 by rotation), 2 no payload + reserved LLID 0, 3 payload + reserved LLID 0
            lines.append("x %s %d %d %d" % (op[1], op[2], crange[k % len(crange)], (2, 1, 3)[(k // 2) % 3]))
        elif op[0] == "r":
            lines.append("r %s" % op[1])
        else:
            raise vlib.ToolFailure("unknown op %r" % (op,))
    lines += ["read"] * 2
    return lines


def diag_lines(out):
    """<<"DIAG", line, <<failing aspects>>, <<stimulus class>>>> printed by LLDataTrace (TLC wraps long values)"""
    res = {}
    lines = out.splitlines()
    k = 0
    while k < len(lines):
        line = lines[k].strip()
        k += 1
        if not re.match(r'<<\s*"DIAG"', line):
            continue
        while line.count("<<") > line.count(">>") and k < len(lines):
            line += " " + lines[k].strip()
            k += 1
        t = vlib.parse_tla_value(line)
        if t:
            names, cls = t[2]
            res[int(t[1])] = ["+".join(str(x) for x in names) or "other"] + [str(x) for x in cls]
    return res


def signature(ev, diag, reset):
    what = diag[0] if diag else "?"
    parts = [ev.get("e", "?"), what]
    if what.startswith("nobuf-while-empty"):
        parts.append("rx<2*maxrx" if reset.get("rx", 0) < 2 * reset.get("maxrx", 0) else "rx>=2*maxrx")
    if what.startswith("refused-while-empty"):
        parts.append("tx<2*alloc" if reset.get("tx", 0) < 2 * ev.get("asz", 0) else "tx>=2*alloc")
    return ":".join(parts + list(diag[1:]))


def validate_many(cfg, traces):
    with ThreadPoolExecutor(max(1, min(JOBS, len(traces)))) as ex:
        res = list(ex.map(lambda p: vlib.validate_trace("LLData", "LLDataTrace.tla", cfg, p, timeout=1800), traces))
    return dict(zip(traces, res))


class Runner:
    """runs behaviours on the builds, pools the recorded executions and validates them with few TLC runs"""

    def __init__(self, c):
        self.c = c
        self.counts = {}
        self.pool = {True: [], False: []}      # room rule on/off -> executions
        self.nfiles = 0

    def count(self, ev):
        e = ev.get("e")
        k = e
        if e == "x":
            k = "x:" + ev["out"]
            if ev["cllid"] == 0:                # reserved LLID: counted separately (vacuity)
                k2 = "x0:%s:%s" % (ev["out"], "data" if ev["clen"] else "empty")
                self.counts[k2] = self.counts.get(k2, 0) + 1
        elif e == "crx":
            k = "crx:" + ev["pout"]
        elif e == "commit":
            k = "commit:" + ("ok" if ev["r"] else "refused")
        elif e == "read":
            k = "read:" + ("pdu" if ev["id"] else "none")
        self.counts[k] = self.counts.get(k, 0) + 1

    def record(self, exe, tx, rx, var, behs, room, tag, offset=0):
        """replay behaviours on one build; the recorded executions go to the pool"""
        c = self.c
        scripts = [script_of(b, offset + n, var) for n, b in enumerate(behs)]
        done = 0
        while done < len(scripts):
            self.nfiles += 1
            sp = os.path.join(c.build_dir, "s_%s_%d.txt" % (tag, self.nfiles))
            tp = os.path.join(c.build_dir, "t_%s_%d.ndjson" % (tag, self.nfiles))
            vlib.write_lines(sp, [l for s in scripts[done:] for l in s])
            rc, out = vlib.run_harness(exe, [sp, tp])
            if rc != 0:
                raise vlib.ToolFailure("harness failed rc=%d: %s" % (rc, out[-2000:]))
            execs = []
            with open(tp) as f:
                for line in f:
                    line = line.strip()
                    if not line:
                        continue
                    if line.startswith('{"e":"Reset"'):
                        execs.append([])
                    execs[-1].append(line)
            os.remove(tp)
            os.remove(sp)
            crashed = bool(execs) and execs[-1][-1].startswith('{"e":"Crash"')
            good = execs[:-1] if crashed else execs
            for k, lines in enumerate(good):
                self.pool[room].append({"tx": tx, "rx": rx, "var": var, "script": scripts[done + k], "lines": lines, "tag": tag})
            done += len(good)
            if crashed:
                evs = [json.loads(l) for l in execs[-1]]
                last = evs[-2] if len(evs) > 1 else {}
                c.finding("crash:%s:after:%s" % (evs[-1].get("what"), last.get("e")),
                          "ll_data_pdu_buffer<%d,%d>: crash / sanitizer report after %s" % (tx, rx, json.dumps(last)),
                          {"tx": tx, "rx": rx, "room": room, "script": scripts[done], "events": evs})
                done += 1
            elif len(good) != len(scripts) - (done - len(good)):
                raise vlib.ToolFailure("%s: %d executions recorded for %d scripts" % (tag, len(good), len(scripts)))

    def validate(self):
        """validate everything in the pool; -> {tag: rejected executions}"""
        c = self.c
        rejected = {}
        for room in (True, False):
            entries = self.pool[room]
            if not entries:
                continue
            total = sum(len(e["lines"]) for e in entries)
            nfiles = max(1, total // 15000)                     # ~15k events per TLC run, JOBS at a time
            files = [[] for _ in range(nfiles)]
            sizes = [0] * nfiles
            for e in entries:                                   # greedy balance
                k = sizes.index(min(sizes))
                files[k].append(e)
                sizes[k] += len(e["lines"])
            paths = []
            for k, es in enumerate(files):
                tp = os.path.join(c.build_dir, "v_%s_%d.ndjson" % ("room" if room else "noroom", k))
                vlib.write_lines(tp, [l for e in es for l in e["lines"]])
                paths.append(tp)
            verdicts = validate_many(trace_cfg(c, room), paths)
            for tp, es in zip(paths, files):
                v = verdicts[tp]
                c.add_traces(len(es), v.events)
                diags = diag_lines(v.out)
                firsts, n = [], 1
                for e in es:
                    firsts.append(n)
                    n += len(e["lines"])
                mism = {}
                for ln in v.mismatch_lines:
                    idx = max(k for k, f in enumerate(firsts) if f <= ln)
                    mism.setdefault(idx, ln)
                for idx, e in enumerate(es):
                    stop = mism.get(idx)
                    first = firsts[idx]
                    upto = len(e["lines"]) if stop is None else stop - first
                    for l in e["lines"][:upto]:
                        self.count(json.loads(l))
                    if stop is not None:
                        rejected[e["tag"]] = rejected.get(e["tag"], 0) + 1
                        evs = [json.loads(l) for l in e["lines"][:upto + 1]]
                        ev = evs[-1]
                        d = diags.get(stop, [])
                        c.finding(signature(ev, d, evs[0]),
                                  "ll_data_pdu_buffer<%d,%d> %s: event %s is not a step of LLData (%s)"
                                  % (e["tx"], e["rx"], e["lines"][0], e["lines"][upto], " ".join(d)),
                                  {"tx": e["tx"], "rx": e["rx"], "room": room, "script": e["script"],
                                   "failing_event": upto, "events": evs})
        self.pool = {True: [], False: []}
        return rejected


def build_all(c, sizes):
    jobs = [dict(name="lldata_%d_%d" % (tx, rx), sources=["lldata/lldata_harness.cpp"],
                 defines=["LL_TX=%d" % tx, "LL_RX=%d" % rx]) for tx, rx in sizes]
    with ThreadPoolExecutor(min(len(jobs), 4)) as ex:
        exes = list(ex.map(lambda j: vlib.build(c, **j), jobs))
    return dict(zip(sizes, exes))


def capof(size):
    return {31: 1, 61: 2, 100: 3}[size]


def run(c):
    mode = MODE[c.prop]
    c.assumptions += [
        "isr-dispatch: the radio calls the buffer as nrf52.hpp radio_interrupt_handler does: timeout -> no call and no "
        "answer; no receive buffer or CRC error -> next_transmit(); CRC ok + MIC ok -> received(); CRC ok + MIC failed "
        "(non-empty PDUs only) -> acknowledge(); one allocate_receive_buffer() per connection event",
        "the central follows Core 4.5.9 (SN/NESN), sends LLID 0..3 (0 = reserved, with and without payload, numbered "
        "and encrypted like any PDU with payload) and respects max_rx_size; it is played by the harness and its "
        "headers are validated against the model (CentralSends / CentralRx)",
        "reserved LLID 0: the spec leaves open whether the PDU is refused (not acknowledged), handed to the upper "
        "layer or dropped, and whether the acknowledgement in its header is used; it demands that an acknowledged one "
        "with payload advances the receive packet counter exactly once and that it is never acknowledged after a CRC/MIC "
        "failure or without buffer",
        "upper layer commits non-empty PDUs of at most max_tx_size; calls are sequential (no preemption inside a call)",
        "fault alphabet of this property (C16 additionally replays the plain alphabet): %s" % {"plain": "lost, CRC error, no buffer in both directions (no MIC failures)",
                                                 "enc": "plain + encrypted link: the harness lets the MIC of a data PDU fail iff the buffer's "
                                                        "receive packet counter differs from the PDU's packet counter (CCM), i.e. on "
                                                        "retransmissions of PDUs that were already accepted and counted",
                                                 "any": "plain + MIC failure on any non-empty PDU"}[mode],
        "C15 only: an empty receive/transmit buffer must accept a PDU (RoomRule); C16/C17 traces are validated without it",
    ]
    if c.replay:
        return replay(c)

    sizes = [(61, 61), (31, 31), (100, 100), (61, 31)] if c.quick else \
            [(t, r) for t in (31, 61, 100) for r in (31, 61, 100)]
    d_all = 5 if c.quick else 6
    nsim, dsim = (240, 80) if c.quick else (1000, 100)
    trans_sizes = [] if c.quick else [(31, 31), (61, 61)]
    # model checking, behaviour generation and the harness builds are independent: run them side by side
    with ThreadPoolExecutor(4) as ex:
        # 1. design level: complete state graph of the bounded instance
        f_mc = [ex.submit(vlib.model_check, c, "LLData", "LLData.tla", cfg, workers=4)
                for cfg in (["MC.cfg"] if c.quick else ["MC.cfg", "MC3.cfg"])]
        # implementation-shaped model (decision structure of the real member functions) under this property's
        # fault alphabet; for C17 also with the repaired acknowledge(pdu)
        f_impl = ex.submit(vlib.model_check, c, "LLData", "LLDataImpl.tla",
                           {"C15": "MCImplC15.cfg", "C16": "MCImplC16.cfg", "C17": "MCImplC17Fixed.cfg"}[c.prop], workers=4)
        f_asis = ex.submit(vlib.model_check, c, "LLData", "LLDataImpl.tla", "MCImplC17AsIs.cfg", workers=4,
                           must_hold=False) if c.prop == "C17" else None
        f_build = ex.submit(build_all, c, sizes)
        # 2. behaviours (fault alphabets per property: see RECIPE)
        rc = RECIPE[c.prop]
        f_all = [ex.submit(gen, c, "all_" + m, 3, 3, 2, 2, d_all, m, "all") for m in rc["all"]]
        # (with the reserved LLID every central PDU has two variants: the quick tier covers 2 central PDUs, thorough 3)
        mc_cov = 2 if c.quick else 3
        f_st = ex.submit(gen, c, "state11", mc_cov, 3, 1, 1, 60, rc["st"][0], rc["st"][1])
        f_tr = ex.submit(gen, c, "cover33", mc_cov, 3, 3, 3, 60, rc["cov"][0], rc["cov"][1] if c.quick else "trans")
        f_sim = [ex.submit(gen, c, "sim_" + m, 60, 60, 2, 3, dsim, m, "sim", simulate=nsim // len(rc["sim"])) for m in rc["sim"]]
        f_trans = {(t, r): ex.submit(gen, c, "trans%d%d" % (capof(t), capof(r)), 3, 3, capof(r), capof(t), 60,
                                     rc["all"][n % len(rc["all"])], "trans")
                   for n, (t, r) in enumerate(trans_sizes)}
        for f in f_mc + [f_impl]:
            f.result()
        if f_asis:
            r = f_asis.result()
            c.extra["impl_model_as_is"] = {"violated": r.violated, "counterexample": r.counterexample()[:3000]}
            c.note("LLDataImpl with the code's acknowledge(pdu) as it is (MicTogglesNesn): %s"
                   % ("invariant %s violated - design-level counterpart of the known finding" % r.violated if r.violated
                      else "no invariant violated"))
        exes = f_build.result()
        b_all = [b for f in f_all for b in f.result()]
        b_st, b_tr = f_st.result(), f_tr.result()
        sims = [f.result() for f in f_sim]
        b_sim = [b for group in zip(*sims) for b in group]            # interleave the alphabets
        plan = [("all", 61, 61, b_all), ("st11", 31, 31, b_st), ("cov33", 100, 100, b_tr)]   # (tag, tx, rx, behaviours)
        if c.quick:
            plan += [("sim", 61, 31, b_sim[:len(b_sim) // 2]), ("sim", 100, 100, b_sim[len(b_sim) // 2:])]
        else:
            for (t, r), f in f_trans.items():
                plan.append(("trans", t, r, f.result()))
            per = max(1, len(b_sim) // len(sizes))
            for n, (t, r) in enumerate(sizes):
                plan.append(("sim", t, r, b_sim[n * per:(n + 1) * per]))
            plan.append(("all", 31, 31, b_all[::5]))
            plan.append(("all", 100, 61, b_all[2::5]))
            plan.append(("all", 61, 100, b_all[4::5]))
    import time
    c.note("phase 1+2 (model checking, builds, generation) done at %.0fs" % (time.time() - c.t0))
    c.extra["recipe"] = {k: list(v) for k, v in rc.items()}
    c.sample({"mode": mode, "behaviour": b_all[len(b_all) // 2]})
    c.sample({"mode": mode, "behaviour": b_tr[-1]})
    c.sample({"mode": mode, "behaviour": b_sim[0][:40]})

    # 3./4. replay + trace validation
    rn = Runner(c)
    off = 0
    summary = []
    for tag, tx, rx, allbehs in plan:
        vs = variants(tx, rx)
        for vi, var in enumerate(vs):
            behs = allbehs[vi::len(vs)]
            if not behs:
                continue
            t = tight(tx, rx, var)
            room = c.prop == "C15" and not t
            vtag = "%s<%d,%d>max%s" % (tag, tx, rx, list(var))
            rn.record(exes[(tx, rx)], tx, rx, var, behs, room, vtag, off)
            summary.append((vtag, len(behs), room))
            if c.prop == "C15" and t:
                # the progress half of C15 on the tight configurations: a sample, validated with the room rule
                sub = behs[:: max(1, len(behs) // 150)]
                rn.record(exes[(tx, rx)], tx, rx, var, sub, True, vtag + "+room", off)
                summary.append((vtag + "+room", len(sub), True))
            off += len(behs)
    c.note("phase 3 (replay on the real class) done at %.0fs" % (time.time() - c.t0))
    rejected = rn.validate()
    c.note("phase 4 (trace validation) done at %.0fs" % (time.time() - c.t0))
    for vtag, n, room in summary:
        c.note("%s: %d behaviours, %d rejected (room rule %s)" % (vtag, n, rejected.get(vtag, 0), "on" if room else "off"))
    c.exhaustive = True
    c.extra["events_by_action"] = dict(sorted(rn.counts.items()))
    c.extra["fault_alphabet"] = mode
    c.extra["rule"] = ("behaviours (environment scripts) come from TLC (LLDataGen: all behaviours of depth %d, state/"
                       "transition covers, -simulate); PDU lengths, LLIDs, allocation style, fresh object vs "
                       "reset_pdu_buffer() and max_rx/max_tx settings are a plain rotation enumerated by the python check" % d_all)
    need = ["x:lost", "x:crc", "x:nobuf", "x:ok", "crx:lost", "crx:ok", "crx:nak", "commit:ok", "commit:refused",
            "read:pdu", "read:none", "x0:ok:data", "x0:ok:empty", "x0:crc:data", "x0:nobuf:data", "x0:lost:data"] + \
           (["x:mic", "x0:mic:data"] if mode != "plain" else [])
    missing = [k for k in need if not rn.counts.get(k)]
    if missing and not c.violations:          # (a violation is a verdict; vacuity only matters for a green run)
        raise vlib.ToolFailure("vacuous: no validated event of class %s" % missing)


def replay(c):
    case = json.load(open(c.replay))["case"]
    tx, rx = case["tx"], case["rx"]
    exe = build_all(c, [(tx, rx)])[(tx, rx)]
    sp = vlib.write_lines(os.path.join(c.build_dir, "replay.txt"), case["script"])
    tp = os.path.join(c.build_dir, "replay.ndjson")
    rc, out = vlib.run_harness(exe, [sp, tp])
    if rc != 0:
        raise vlib.ToolFailure("harness failed rc=%d: %s" % (rc, out[-2000:]))
    v = vlib.validate_trace("LLData", "LLDataTrace.tla", trace_cfg(c, bool(case.get("room"))), tp)
    evs = vlib.read_ndjson(tp)
    c.add_traces(1, v.events)
    c.sample(evs[:30])
    diags = diag_lines(v.out)
    for ln in v.mismatch_lines:
        ev = evs[ln - 1]
        c.finding(signature(ev, diags.get(ln, []), evs[0]),
                  "replayed case rejected at event %d: %s (%s)" % (ln, json.dumps(ev, separators=(",", ":")),
                                                                    " ".join(diags.get(ln, []))), case)
    if not v.mismatch_lines:
        c.note("replayed case accepted: %d events" % v.events)
