"""C15, C16, C17 - link layer data PDU buffer: SN/NESN reliable delivery, packet counters, MIC failures.

spec/LLData/LLData.tla        property-level model: central (environment) + lossy channel + peripheral buffer + upper
                              layer; the peripheral's obligations per received PDU (Answer) and the end-to-end
                              invariants (DeliveredPrefix, AckOnlyAfterReceipt, NoAckWithoutStore, counters in step ...)
spec/LLData/LLDataGen.tla     behaviour generator (environment scripts): all behaviours to depth D, one behaviour per
                              model state / per (operation, state), random deep ones
spec/LLData/LLDataTrace.tla   trace validation of the recorded steps of the real class
harness/lldata                mock_radio : ll_data_pdu_buffer<Tx, Rx, mock_radio>; plays central, channel, upper layer

The three properties share the model and the harness; they differ in the fault alphabet of the generated behaviours:
  C15 "plain"  lost / CRC error / no buffer, no MIC failures; additionally the room rule (an empty buffer accepts a PDU)
  C16 "enc"    encrypted link: a retransmission of a data PDU that was already accepted fails its MIC
  C17 "any"    a MIC failure can hit any non-empty PDU
"""
import json
import os
import re
from concurrent.futures import ThreadPoolExecutor

import vlib

PROPS = ["C15", "C16", "C17"]
_TECH = "TLA+ model checking (TLC) + TLC-generated behaviours replayed on the real class + TLC trace validation"
_NOTE = ("bounded: 3-4 data PDUs per direction in the exhaustive model (no bound on connection events), behaviours to "
         "depth 6/7 exhaustively + state/transition covers of the bounded model + random deep ones; Tx/Rx in {31,61,100}, "
         "default PDU layout; radio ISR dispatch transcribed from nrf52.hpp (assumption isr-dispatch), the ISR itself and "
         "nrf52.cpp counter::increment are not executed; central sends only valid LLIDs; sequential (no ISR/main "
         "interleaving inside a call); trusted: TLC, harness/lldata, g++/ASan.")
META = {
    "C15": {"text": "TLC explores the complete state graph of the SN/NESN model (central + lossy channel + peripheral buffer, "
                    "3-4 PDUs per direction, receive capacity 1-2, any number of connection events) with the delivery "
                    "invariants; TLC-generated loss/CRC/no-buffer/retransmission patterns are replayed on the real "
                    "ll_data_pdu_buffer through its protected radio interface and every recorded connection event, "
                    "commit and read is validated by TLC against the model (answer header, retransmission content, "
                    "delivery order, payload integrity).",
            "note": _NOTE, "technique": _TECH, "design_ref": "5.4"},
    "C16": {"text": "Same model and harness; the model states that the receive/transmit packet counters equal the ghost "
                    "CCM counters of the PDUs (one step per new non-empty PDU / acknowledged non-empty PDU); behaviours of "
                    "an encrypted link (retransmissions of accepted PDUs fail their MIC) are replayed on the real buffer "
                    "and the counter callbacks per connection event are validated by TLC.",
            "note": _NOTE, "technique": _TECH, "design_ref": "5.4"},
    "C17": {"text": "Same model and harness; MIC failures are placed at every position of the PDU stream (new PDUs and "
                    "retransmissions, with and without pending acknowledgement); the model demands that NESN only moves "
                    "when the PDU was stored; the real acknowledge(read_buffer) path is driven as the nRF52 ISR does and "
                    "validated by TLC.",
            "note": _NOTE, "technique": _TECH, "design_ref": "5.4"},
}

MODE = {"C15": "plain", "C16": "enc", "C17": "any"}
JOBS = int(os.environ.get("VERIF_JOBS", "6"))
LENS = [1, 27, 5, 2, 13, 26, 3, 9, 20]
INVS = "INVARIANTS TraceInv\n"


def consts(maxc, maxp, rxcap, txcap, room=True, extra=""):
    return ("CONSTANTS MaxC = %d  MaxP = %d  RxCap = %d  TxCap = %d  RoomRule = %s %s\n"
            % (maxc, maxp, rxcap, txcap, "TRUE" if room else "FALSE", extra))


def trace_cfg(c, room):
    return vlib.write_cfg(c, "trace_%s.cfg" % ("room" if room else "noroom"),
                          consts(100000, 100000, 100000, 100000, room) + "SPECIFICATION TSpec\n" + INVS + "CHECK_DEADLOCK FALSE\n")


def drop_prefixes(behs):
    """remove behaviours that are a proper prefix of another one (cover modes print every state)"""
    keyed = sorted(set(tuple(tuple(op) for op in b) for b in behs))
    out = []
    for i, b in enumerate(keyed):
        if i + 1 < len(keyed) and keyed[i + 1][:len(b)] == b:
            continue
        out.append([list(op) for op in b])
    return out


def gen(c, name, maxc, maxp, rxcap, txcap, d, mode, cover, simulate=None, workers=4):
    view = {"state": "VIEW GViewState\n", "trans": "VIEW GViewTrans\n"}.get(cover, "")
    cfg = vlib.write_cfg(c, "gen_%s.cfg" % name,
                         consts(maxc, maxp, rxcap, txcap, True, 'D = %d  Mode = "%s"  Cover = "%s"' % (d, mode, cover)) +
                         "SPECIFICATION GSpec\nINVARIANTS Emit\n" + view + "CHECK_DEADLOCK FALSE\n")
    if simulate:
        behs = vlib.generate(c, "LLData", "LLDataGen.tla", cfg, simulate=max(1, simulate // workers), depth=d + 1,
                             seed=c.seed, workers=workers)[:simulate]
    else:
        behs = vlib.generate(c, "LLData", "LLDataGen.tla", cfg, workers=workers)
    n = len(behs)
    if cover in ("state", "trans"):
        behs = drop_prefixes(behs)
    c.note("generated %s: %d behaviours (%d printed), %d ops" % (name, len(behs), n, sum(len(b) for b in behs)))
    return behs


def variants(tx, rx):
    """(max_rx_size, max_tx_size) settings used after reset; 0 = default 29"""
    v = [(0, 0)]
    if rx >= 61 or tx >= 61:
        v.append((rx // 2 if rx >= 61 else 0, tx // 2 if tx >= 61 else 0))
        v.append((rx if rx >= 61 else 0, tx if tx >= 61 else 0))
    return v


def tight(tx, rx, var):
    """a buffer smaller than two maximum sized PDUs (the ring cannot always place a PDU of maximum size)"""
    return tx < 2 * (var[1] or 29) or rx < 2 * (var[0] or 29)


def script_of(beh, i, var):
    """environment script for behaviour number i. Lengths, LLIDs, allocation style, fresh object / reset_pdu_buffer
    are a plain rotation (grid), not part of the model; var = (max_rx_size, max_tx_size) setting."""
    mrx, mtx = var
    lines = ["reset %d %d %d" % (1 if i % 3 == 0 else 0, mrx, mtx)]
    crange = [x for x in LENS + [(mrx or 29) - 2] if x <= (mrx or 29) - 2]
    prange = [x for x in LENS + [(mtx or 29) - 2] if x <= (mtx or 29) - 2]
    for j, op in enumerate(beh):
        k = i + j
        if op[0] == "commit":
            lines.append("commit %d %d %d" % (prange[k % len(prange)], (2, 1, 3)[k % 3], (k // 2) % 2))
        elif op[0] == "read":
            lines.append("read")
        elif op[0] == "x":
            lines.append("x %s %d %d %d" % (op[1], op[2], crange[k % len(crange)], (2, 1, 3)[(k // 2) % 3]))
        elif op[0] == "r":
            lines.append("r %s" % op[1])
        else:
            raise vlib.ToolFailure("unknown op %r" % (op,))
    lines += ["read"] * 4
    return lines


def diag_lines(out):
    res = {}
    for line in out.splitlines():
        line = line.strip()
        if line.startswith('<<"DIAG"'):
            t = vlib.parse_tla_value(line)
            if t:
                res[int(t[1])] = [str(x) for x in t[2]]
    return res


def signature(ev, diag, reset):
    what = diag[0] if diag else "?"
    parts = [ev.get("e", "?"), what]
    if what == "nobuf-while-empty":
        parts.append("rx<2*maxrx" if reset.get("rx", 0) < 2 * reset.get("maxrx", 0) else "rx>=2*maxrx")
    if what == "refused-while-empty":
        parts.append("tx<2*alloc" if reset.get("tx", 0) < 2 * ev.get("asz", 0) else "tx>=2*alloc")
    return ":".join(parts + list(diag[1:]))


def validate_many(cfg, traces):
    with ThreadPoolExecutor(max(1, min(JOBS, len(traces)))) as ex:
        res = list(ex.map(lambda p: vlib.validate_trace("LLData", "LLDataTrace.tla", cfg, p), traces))
    return dict(zip(traces, res))


class Runner:
    def __init__(self, c):
        self.c = c
        self.counts = {}
        self.mic_ok = 0

    def count(self, ev):
        e = ev.get("e")
        k = e
        if e == "x":
            k = "x:" + ev["out"]
        elif e == "crx":
            k = "crx:" + ev["pout"]
        elif e == "commit":
            k = "commit:" + ("ok" if ev["r"] else "refused")
        elif e == "read":
            k = "read:" + ("pdu" if ev["id"] else "none")
        self.counts[k] = self.counts.get(k, 0) + 1

    def replay_set(self, exe, tx, rx, var, behs, room, tag, offset=0):
        """run the behaviours on one build, validate, report. -> number of mismatching executions"""
        c = self.c
        if not behs:
            return 0
        nchunks = max(1, min(JOBS, sum(len(b) + 5 for b in behs) // 6000))
        traces, scripts = [], {}
        i = offset
        for n, part in enumerate(vlib.chunks(behs, nchunks)):
            sp = os.path.join(c.build_dir, "s_%s_%d.txt" % (tag, n))
            tp = os.path.join(c.build_dir, "t_%s_%d.ndjson" % (tag, n))
            ss = []
            for b in part:
                ss.append(script_of(b, i, var))
                i += 1
            vlib.write_lines(sp, [l for s in ss for l in s])
            rc, out = vlib.run_harness(exe, [sp, tp])
            if rc != 0:
                raise vlib.ToolFailure("harness failed rc=%d: %s" % (rc, out[-2000:]))
            traces.append(tp)
            scripts[tp] = ss
        verdicts = validate_many(trace_cfg(c, room), traces)
        bad = 0
        for tp in traces:
            v = verdicts[tp]
            execs = vlib.split_executions(tp)
            if len(execs) != len(scripts[tp]):
                raise vlib.ToolFailure("%s: %d executions for %d scripts (crash?)" % (tp, len(execs), len(scripts[tp])))
            c.add_traces(len(execs), v.events)
            diags = diag_lines(v.out)
            firsts = [e[0] for e in execs]
            mism = {}
            for ln in v.mismatch_lines:
                idx = max(k for k, f in enumerate(firsts) if f <= ln)
                mism[idx] = ln
            for idx, (first, evs) in enumerate(execs):
                stop = mism.get(idx)
                for k, ev in enumerate(evs):
                    if stop is not None and first + k >= stop:
                        break
                    self.count(ev)
                if stop is not None:
                    bad += 1
                    ev = evs[stop - first]
                    sig = signature(ev, diags.get(stop, []), evs[0])
                    c.finding(sig, "ll_data_pdu_buffer<%d,%d> %s: event %s is not a step of LLData (%s)"
                              % (tx, rx, json.dumps(evs[0], separators=(",", ":")), json.dumps(ev, separators=(",", ":")),
                                 " ".join(diags.get(stop, []))),
                              {"tx": tx, "rx": rx, "room": room, "script": scripts[tp][idx], "failing_event": stop - first,
                               "events": evs[:stop - first + 1]})
        return bad


def build_all(c, sizes):
    jobs = [dict(name="lldata_%d_%d" % (tx, rx), sources=["lldata/lldata_harness.cpp"],
                 defines=["LL_TX=%d" % tx, "LL_RX=%d" % rx]) for tx, rx in sizes]
    with ThreadPoolExecutor(min(len(jobs), 4)) as ex:
        exes = list(ex.map(lambda j: vlib.build(c, **j), jobs))
    return dict(zip(sizes, exes))


def capof(size):
    return {31: 1, 61: 2, 100: 3}[size]


def run(c):
    mode = MODE[c.prop]
    c.assumptions += [
        "isr-dispatch: the radio calls the buffer as nrf52.hpp radio_interrupt_handler does: timeout -> no call and no "
        "answer; no receive buffer or CRC error -> next_transmit(); CRC ok + MIC ok -> received(); CRC ok + MIC failed "
        "(non-empty PDUs only) -> acknowledge(); one allocate_receive_buffer() per connection event",
        "the central follows Core 4.5.9 (SN/NESN), sends only LLID 1..3 and respects max_rx_size; it is played by the "
        "harness and its headers are validated against the model (CentralSends / CentralRx)",
        "upper layer commits non-empty PDUs of at most max_tx_size; calls are sequential (no preemption inside a call)",
        "fault alphabet of this property: %s" % {"plain": "lost, CRC error, no buffer in both directions (no MIC failures)",
                                                 "enc": "plain + MIC failure exactly on retransmissions of accepted data PDUs",
                                                 "any": "plain + MIC failure on any non-empty PDU"}[mode],
        "C15 only: an empty receive/transmit buffer must accept a PDU (RoomRule); C16/C17 traces are validated without it",
    ]
    if c.replay:
        return replay(c)

    # 1. design level: complete state graph of the bounded instance
    vlib.model_check(c, "LLData", "LLData.tla", "MC.cfg", workers=4)
    if not c.quick:
        vlib.model_check(c, "LLData", "LLData.tla", "MC4.cfg", workers=4)

    sizes = [(61, 61), (31, 31), (100, 100), (61, 31)] if c.quick else \
            [(t, r) for t in (31, 61, 100) for r in (31, 61, 100)]
    exes = build_all(c, sizes)

    # 2. behaviours
    plan = []   # (tag, tx, rx, behaviours)
    d_all = 6 if c.quick else 7
    with ThreadPoolExecutor(3) as ex:
        f_all = ex.submit(gen, c, "all", 3, 3, 2, 2, d_all, mode, "all")
        f_st = ex.submit(gen, c, "state11", 3, 3, 1, 1, 60, mode, "state")
        f_tr = ex.submit(gen, c, "cover33", 3, 3, 3, 3, 60, mode, "state" if c.quick else "trans")
        b_all, b_st, b_tr = f_all.result(), f_st.result(), f_tr.result()
    plan += [("all", 61, 61, b_all), ("st11", 31, 31, b_st), ("cov33", 100, 100, b_tr)]
    nsim, dsim = (240, 80) if c.quick else (3000, 120)
    b_sim = gen(c, "sim", 60, 60, 2, 3, dsim, mode, "sim", simulate=nsim)
    if c.quick:
        plan += [("sim_a", 61, 31, b_sim[:nsim // 2]), ("sim_b", 100, 100, b_sim[nsim // 2:])]
    else:
        with ThreadPoolExecutor(3) as ex:
            fs = {(t, r): ex.submit(gen, c, "trans%d%d" % (capof(t), capof(r)), 3, 3, capof(r), capof(t), 60, mode, "trans")
                  for t, r in sizes if (t, r) not in ((100, 100),)}
            for (t, r), f in fs.items():
                plan.append(("tr_%d_%d" % (t, r), t, r, f.result()))
        per = max(1, len(b_sim) // len(sizes))
        for n, (t, r) in enumerate(sizes):
            plan.append(("sim_%d_%d" % (t, r), t, r, b_sim[n * per:(n + 1) * per]))
        plan.append(("all31", 31, 31, b_all[::7]))
        plan.append(("all100", 100, 61, b_all[3::7]))
    c.sample({"mode": mode, "behaviour": b_all[len(b_all) // 2]})
    c.sample({"mode": mode, "behaviour": b_tr[-1]})
    c.sample({"mode": mode, "behaviour": b_sim[0][:40]})

    # 3./4. replay + trace validation
    rn = Runner(c)
    off = 0
    for tag, tx, rx, allbehs in plan:
        vs = variants(tx, rx)
        for vi, var in enumerate(vs):
            behs = allbehs[vi::len(vs)]
            if not behs:
                continue
            t = tight(tx, rx, var)
            room = c.prop == "C15" and not t
            vtag = "%s_v%d" % (tag, vi)
            bad = rn.replay_set(exes[(tx, rx)], tx, rx, var, behs, room, vtag, off)
            c.note("%s on <%d,%d> max_rx/tx %s: %d behaviours, %d rejected (room rule %s)"
                   % (tag, tx, rx, var, len(behs), bad, "on" if room else "off"))
            if c.prop == "C15" and t:
                # the progress half of C15 on the tight configurations: a sample, validated with the room rule
                sub = behs[:: max(1, len(behs) // 300)]
                bad = rn.replay_set(exes[(tx, rx)], tx, rx, var, sub, True, vtag + "_room", off)
                c.note("%s on <%d,%d> max_rx/tx %s with room rule: %d behaviours, %d rejected" % (tag, tx, rx, var, len(sub), bad))
            off += len(behs)
    c.exhaustive = True
    c.extra["events_by_action"] = dict(sorted(rn.counts.items()))
    c.extra["fault_alphabet"] = mode
    c.extra["rule"] = ("behaviours (environment scripts) come from TLC (LLDataGen: all behaviours of depth %d, state/"
                       "transition covers, -simulate); PDU lengths, LLIDs, allocation style, fresh object vs "
                       "reset_pdu_buffer() and max_rx/max_tx settings are a plain rotation enumerated by the python check" % d_all)
    need = ["x:lost", "x:crc", "x:nobuf", "x:ok", "crx:lost", "crx:ok", "crx:nak", "commit:ok", "commit:refused",
            "read:pdu", "read:none"] + (["x:mic"] if mode != "plain" else [])
    missing = [k for k in need if not rn.counts.get(k)]
    if missing:
        raise vlib.ToolFailure("vacuous: no validated event of class %s" % missing)


def replay(c):
    case = json.load(open(c.replay))["case"]
    tx, rx = case["tx"], case["rx"]
    exe = build_all(c, [(tx, rx)])[(tx, rx)]
    sp = vlib.write_lines(os.path.join(c.build_dir, "replay.txt"), case["script"])
    tp = os.path.join(c.build_dir, "replay.ndjson")
    rc, out = vlib.run_harness(exe, [sp, tp])
    if rc != 0:
        raise vlib.ToolFailure("harness failed rc=%d: %s" % (rc, out[-2000:]))
    v = vlib.validate_trace("LLData", "LLDataTrace.tla", trace_cfg(c, bool(case.get("room"))), tp)
    evs = vlib.read_ndjson(tp)
    c.add_traces(1, v.events)
    c.sample(evs[:30])
    diags = diag_lines(v.out)
    for ln in v.mismatch_lines:
        ev = evs[ln - 1]
        c.finding(signature(ev, diags.get(ln, []), evs[0]),
                  "replayed case rejected at event %d: %s (%s)" % (ln, json.dumps(ev, separators=(",", ":")),
                                                                    " ".join(diags.get(ln, []))), case)
    if not v.mismatch_lines:
        c.note("replayed case accepted: %d events" % v.events)
