"""C18 - PDU ring buffers keep PDUs intact and in FIFO order.

spec/PduRing/PduRing.tla        property level: live PDUs as [id, off, len], memory as byte tags, the placement rule
spec/PduRing/PduRingImpl.tla    implementation-shaped model (front_/end_/wrap mark); refinement checked by TLC
spec/PduRing/PduRingGen.tla     behaviour generator: every (state, operation) pair of the bounded impl model / random deep
spec/PduRing/PduRingTrace.tla   trace validation of the recorded calls of the real class (tree traces with Undo)
harness/pduring                 replays on pdu_ring_buffer<Size, read_buffer, Layout>, canaries, byte diffs
"""
import json
import os
from concurrent.futures import ThreadPoolExecutor

import vlib

PROPS = ["C18"]
META = {"C18": {
    "text": "TLC checks that the implementation-shaped ring model (front_/end_/wrap mark) refines the property-level "
            "ring (FIFO, live PDUs intact and disjoint, writes inside the storage, alloc fails only when the placement "
            "rule has no room) and enumerates its complete reachable state graph for ring sizes 6..12 and both PDU "
            "layouts; every (state, operation) pair is replayed on the real pdu_ring_buffer<Size, read_buffer, Layout> "
            "on a canary-guarded storage with every PDU filled with its id, and every recorded call (returned region, "
            "bytes changed by the ring, bytes read back) is validated by TLC against the property-level model; random "
            "deep histories at realistic sizes (29..600 bytes, PDUs up to 254 bytes) are validated the same way.",
    "note": "exhaustive for Size 6..12 with at most 4 (quick: 3) live PDUs; realistic sizes by simulation only; PDU "
            "memory sizes <= 254 (251 + layout overhead; beyond 255 push_front narrows to uint8_t, outside the documented "
            "range); default_pdu_layout and the real nrf_details::encrypted_pdu_layout (nrf.hpp over a stub <nrf.h>); "
            "trusted: TLC, harness/pduring (byte diff of the arena), g++/ASan/UBSan.",
    "technique": "TLA+ model checking (TLC, refinement) + TLC-generated behaviour tree replayed on the real class + TLC trace validation",
    "design_ref": "5.4"}}

LAYOUT_MIN = {0: 2, 1: 3}          # layout id -> Layout::data_channel_pdu_memory_size(0)
LAYOUT_NAME = {0: "default_pdu_layout", 1: "nrf_details::encrypted_pdu_layout"}
HARNESS_SIZES = {6, 7, 8, 9, 10, 11, 12, 13, 16, 29, 30, 32, 50, 61, 100, 255, 256, 257, 300, 512, 600}
JOBS = 4


def tla_set(xs):
    return "{" + ",".join(str(x) for x in sorted(set(xs))) + "}"


def consts(size, layout, maxlive, sizes=None, lens=None, extra=""):
    m = LAYOUT_MIN[layout]
    s = "CONSTANTS Size = %d  MinSz = %d  MaxLive = %d" % (size, m, maxlive)
    if sizes is not None:
        s += "  Sizes = %s  Lens = %s" % (tla_set(sizes), tla_set(lens))
    return s + " " + extra + "\n"


def small_alphabet(size, layout):
    m = LAYOUT_MIN[layout]
    return list(range(m + 1, size + 2)), list(range(m + 1, size + 1))


def real_alphabet(size, layout):
    """PDU memory sizes that occur in practice: tiny, 27 byte payload, 100, the documented maximum 251 (+ overhead)"""
    m = LAYOUT_MIN[layout]
    lens = [x for x in (m + 1, m + 2, m + 7, m + 27, m + 60, m + 100, m + 200, m + 249, m + 251) if x <= min(size, 254)]
    sizes = sorted(set(lens + [x for x in (m + 27, m + 251, size - 1, size, size // 2, size // 2 + 1) if m < x <= size]))
    return sizes, lens


# ------------------------------------------------------------------------------------------
# behaviours -> scripts
# ------------------------------------------------------------------------------------------
def op_line(op):
    return " ".join(str(x) for x in op)


def tree_script(size, layout, behaviours):
    """depth first walk through the prefix tree of the behaviours: every operation is followed by its subtree and an undo"""
    root = {}
    for b in behaviours:
        node = root
        for op in b:
            node = node.setdefault(tuple(op), {})
    lines = ["reset %d %d" % (size, layout)]
    n_ops = 0
    stack = [(root, iter(sorted(root.items(), key=lambda kv: [str(x) for x in kv[0]])))]
    while stack:
        node, it = stack[-1]
        try:
            op, child = next(it)
        except StopIteration:
            stack.pop()
            if stack:
                lines.append("undo")
            continue
        lines.append(op_line(op) + " u")
        n_ops += 1
        stack.append((child, iter(sorted(child.items(), key=lambda kv: [str(x) for x in kv[0]]))))
    return lines, n_ops


def linear_script(size, layout, behaviours):
    lines = []
    for b in behaviours:
        lines.append("reset %d %d" % (size, layout))
        lines += [op_line(op) for op in b]
    return lines


# ------------------------------------------------------------------------------------------
# signatures
# ------------------------------------------------------------------------------------------
def signature(ev, before):
    """stable description of a rejected event: action + the argument classes that matter.
    `before` = the events of the same operation path that precede it (to know whether the ring was empty)"""
    e = ev.get("e")
    empty_before = before[-1].get("empty") if before else True
    if e == "alloc":
        if not ev.get("r"):
            return "alloc:refused:%s:size%s" % ("empty" if empty_before else "nonempty",
                                                "<Size" if ev["size"] < ev.get("_Size", 1 << 30) else ">=Size")
        return "alloc:granted:%s" % ("bad_w" if ev.get("w") else "region")
    if e == "push":
        return "push:%s" % ("w" if ev.get("w") else "obs")
    if e == "peek":
        return "peek:r=%s" % ev.get("r")
    if e == "pop":
        return "pop:%s" % ("w" if ev.get("w") else "r=%s" % ev.get("r"))
    if e == "Crash":
        return "crash:%s" % ev.get("what")
    return "%s" % e


def path_to(events, idx):
    """the operation path (events, Undo resolved) from the Reset of the execution to events[idx] (inclusive)"""
    path = []          # list of lists: events per operation
    for ev in events[:idx + 1]:
        if ev["e"] == "Reset":
            path = [[ev]]
        elif ev["e"] == "Undo":
            if len(path) > 1:
                path.pop()
        elif ev.get("b"):
            path.append([ev])
        else:
            path[-1].append(ev)
    return [ev for grp in path for ev in grp]


def script_of_events(evs):
    """script that re-executes a recorded operation path"""
    lines = []
    i = 0
    while i < len(evs):
        ev = evs[i]
        e = ev["e"]
        if e == "Reset":
            lines.append("reset %d %d" % (ev["size"], ev["layout"]))
        elif e == "alloc":
            nxt = evs[i + 1] if i + 1 < len(evs) else None
            if nxt is not None and nxt["e"] == "push" and not nxt.get("b"):
                lines.append("push %d %d %d" % (nxt["id"], ev["size"], nxt["len"]))
                i += 1
            else:
                lines.append("alloc %d" % ev["size"])
        elif e == "peek":
            nxt = evs[i + 1] if i + 1 < len(evs) else None
            if nxt is not None and nxt["e"] == "pop" and not nxt.get("b"):
                lines.append("pop")
                i += 1
            else:
                lines.append("peek")
        elif e == "pop":
            lines.append("pop")
        i += 1
    return lines


# ------------------------------------------------------------------------------------------
def trace_cfg(c, name, size, layout):
    return vlib.write_cfg(c, name, consts(size, layout, 9) +
                          "SPECIFICATION TSpec\nINVARIANTS InStorage NoOverlap IntactInv\nCHECK_DEADLOCK FALSE\n")


def run_and_validate(c, exe, jobs, counts):
    """jobs: list of dict(tag, size, layout, lines). Runs the harness and validates every trace (in parallel)."""
    def one(j):
        sp = vlib.write_lines(os.path.join(c.build_dir, "s_%s.txt" % j["tag"]), j["lines"])
        tp = os.path.join(c.build_dir, "t_%s.ndjson" % j["tag"])
        rc, out = vlib.run_harness(exe, [sp, tp])
        if rc != 0:
            raise vlib.ToolFailure("harness failed rc=%d: %s" % (rc, out[-2000:]))
        cfg = trace_cfg(c, "trace_%s.cfg" % j["tag"], j["size"], j["layout"])
        v = vlib.validate_trace("PduRing", "PduRingTrace.tla", cfg, tp, heap="3g")
        return j, tp, v
    with ThreadPoolExecutor(JOBS) as ex:
        results = list(ex.map(one, jobs))
    for j, tp, v in results:
        evs = vlib.read_ndjson(tp)
        for ev in evs:
            counts[ev["e"]] = counts.get(ev["e"], 0) + 1
        n_exec = sum(1 for ev in evs if ev["e"] == "Reset")
        c.add_traces(j.get("n_paths", n_exec), v.events)
        if evs and evs[-1]["e"] == "Crash" and len(evs) not in v.mismatch_lines:
            v.mismatch_lines.append(len(evs))
        for ln in v.mismatch_lines:
            path = path_to(evs, ln - 1)
            ev = dict(path[-1])
            ev["_Size"] = j["size"]
            sig = "%s:%s" % (signature(ev, path[:-1]), "nrf" if j["layout"] else "default")
            c.finding(sig, "pdu_ring_buffer<%d, read_buffer, %s>: call %s after %d calls is not a step of the ring model"
                      % (j["size"], LAYOUT_NAME[j["layout"]], {k: x for k, x in path[-1].items() if k != "b"}, len(path) - 1),
                      {"size": j["size"], "layout": j["layout"], "script": script_of_events(path)})
    return results


def run(c):
    c.assumptions += [
        "environment keeps the documented preconditions: alloc_front sizes > Layout minimum, pushed PDUs have a non-zero "
        "length field and fit the allocated region, pop_end only on a non-empty ring, one user at a time (sequential calls)",
        "PDU memory sizes <= 254 (documented maximum 251 + layout overhead <= 3); larger sizes are narrowed to uint8_t by push_front",
        "the placement rule is the one stated in PduRing.tla (HasRoom): behind the newest PDU, else strictly below the oldest; "
        "an empty ring takes every PDU of up to Size - 1 bytes (class documentation)",
        "nRF encrypted layout: the real bluetoe::nrf_details::encrypted_pdu_layout from nrf.hpp, included over the stub "
        "harness/pduring/stubs/nrf.h (no register of the stub is ever used)"]
    exe = vlib.build(c, "pduring", ["pduring/pduring_harness.cpp"],
                     includes=["-I" + vlib.REPO + "/bluetoe/bindings/nordic/include", "-I" + vlib.HARNESS + "/pduring/stubs"])
    if c.replay:
        return replay(c, exe)

    # 1. design level: the property-level ring, and the implementation-shaped model refines it
    vlib.model_check(c, "PduRing", "PduRing.tla", "MC.cfg", workers=JOBS)
    vlib.model_check(c, "PduRing", "PduRingImpl.tla", "MCImpl.cfg", workers=JOBS)
    r = vlib.model_check(c, "PduRing", "PduRingImpl.tla", "MCImplEmpty.cfg", must_hold=False, workers=JOBS, coverage=False)
    c.extra["model_level_findings"] = []
    if r.violated:
        c.extra["model_level_findings"].append(
            "PduRingImpl violates %s (an empty ring whose pointers stand in the middle of the storage refuses PDUs of "
            "up to Size - 1 bytes); the same histories are replayed on the real class below" % r.violated)

    # 2. exhaustive: complete reachable state graph of the impl model per (Size, layout); every transition replayed
    small = [(s, l) for s in ((6, 7, 8, 9, 10) if c.quick else (6, 7, 8, 9, 10, 11, 12)) for l in (0, 1)]
    maxlive = 3 if c.quick else 4
    counts = {}

    def gen(cfgkey):
        size, layout = cfgkey
        sizes, lens = small_alphabet(size, layout)
        cfg = vlib.write_cfg(c, "gen_%d_%d.cfg" % cfgkey, consts(size, layout, maxlive, sizes, lens, "D = 60  EmitAll = TRUE") +
                             "SPECIFICATION GSpec\nVIEW View\nCHECK_DEADLOCK FALSE\n")
        r = vlib.tlc("PduRing", "PduRingGen.tla", cfg, workers=2, heap="3g")
        if r.violated or r.error or not r.completed:
            raise vlib.ToolFailure("generator failed for %s: %s %s\n%s" % (cfgkey, r.violated, r.error, r.out[-3000:]))
        if r.depth >= 60:
            raise vlib.ToolFailure("generator did not reach the closure of the state graph for %s" % (cfgkey,))
        return cfgkey, r
    with ThreadPoolExecutor(JOBS) as ex:
        gens = list(ex.map(gen, small))
    jobs = []
    for cfgkey, r in gens:
        c.add_model_run("PduRingGen", "Size=%d layout=%d MaxLive=%d" % (cfgkey[0], cfgkey[1], maxlive), r)
        behs = vlib.behaviours(r)
        lines, n_ops = tree_script(cfgkey[0], cfgkey[1], behs)
        c.extra.setdefault("exhaustive_configs", []).append(
            {"Size": cfgkey[0], "layout": LAYOUT_NAME[cfgkey[1]], "model_states": r.distinct, "model_transitions": r.generated - 1,
             "operations_replayed": n_ops, "graph_depth": r.depth})
        if cfgkey == small[-1]:
            c.sample({"Size": cfgkey[0], "layout": LAYOUT_NAME[cfgkey[1]], "behaviour": max(behs, key=len)})
        jobs.append({"tag": "ex_%d_%d" % cfgkey, "size": cfgkey[0], "layout": cfgkey[1], "lines": lines, "n_paths": n_ops})
    run_and_validate(c, exe, jobs, counts)
    c.exhaustive = True

    # 3. realistic sizes: random deep histories from the same generator model
    real = [(29, 0), (30, 1), (50, 0), (61, 0), (61, 1), (100, 0), (100, 1), (255, 0), (256, 1), (300, 0), (300, 1), (600, 1)]
    if c.quick:
        real = [(29, 0), (50, 0), (61, 1), (100, 0), (256, 1), (300, 0), (600, 1)]
    nsim, dsim = (40, 40) if c.quick else (300, 80)

    def sim(cfgkey):
        size, layout = cfgkey
        sizes, lens = real_alphabet(size, layout)
        cfg = vlib.write_cfg(c, "sim_%d_%d.cfg" % cfgkey, consts(size, layout, 6, sizes, lens, "D = %d  EmitAll = FALSE" % dsim) +
                             "SPECIFICATION GSpec\nCHECK_DEADLOCK FALSE\n")
        r = vlib.tlc("PduRing", "PduRingGen.tla", cfg, workers=2, heap="3g", simulate=(nsim + 1) // 2, depth=dsim + 1, seed=c.seed)
        if r.violated or r.error:
            raise vlib.ToolFailure("simulation failed for %s: %s %s\n%s" % (cfgkey, r.violated, r.error, r.out[-3000:]))
        behs = vlib.behaviours(r)
        if not behs:
            raise vlib.ToolFailure("simulation produced nothing for %s\n%s" % (cfgkey, r.out[-2000:]))
        return cfgkey, behs[:nsim]
    with ThreadPoolExecutor(JOBS) as ex:
        sims = list(ex.map(sim, real))
    jobs = []
    for cfgkey, behs in sims:
        if cfgkey == real[-1]:
            c.sample({"Size": cfgkey[0], "layout": LAYOUT_NAME[cfgkey[1]], "behaviour": behs[0]})
        jobs.append({"tag": "sim_%d_%d" % cfgkey, "size": cfgkey[0], "layout": cfgkey[1],
                     "lines": linear_script(cfgkey[0], cfgkey[1], behs)})
    c.extra["simulated_configs"] = [{"Size": k[0], "layout": LAYOUT_NAME[k[1]], "behaviours": len(b), "depth": dsim} for k, b in sims]
    run_and_validate(c, exe, jobs, counts)
    c.extra["events_by_action"] = counts
    for need in ("Reset", "alloc", "push", "peek", "pop", "Undo"):
        if not counts.get(need):
            raise vlib.ToolFailure("vacuous: no %s event was validated" % need)


def replay(c, exe):
    case = json.load(open(c.replay))["case"]
    sp = vlib.write_lines(os.path.join(c.build_dir, "replay.txt"), case["script"])
    tp = os.path.join(c.build_dir, "replay.ndjson")
    vlib.run_harness(exe, [sp, tp])
    cfg = trace_cfg(c, "trace_r.cfg", case["size"], case["layout"])
    v = vlib.validate_trace("PduRing", "PduRingTrace.tla", cfg, tp)
    evs = vlib.read_ndjson(tp)
    c.add_traces(1, v.events)
    c.sample(evs[-6:])
    if evs and evs[-1]["e"] == "Crash" and len(evs) not in v.mismatch_lines:
        v.mismatch_lines.append(len(evs))
    for ln in v.mismatch_lines:
        ev = dict(evs[ln - 1])
        ev["_Size"] = case["size"]
        sig = "%s:%s" % (signature(ev, evs[:ln - 1]), "nrf" if case["layout"] else "default")
        c.finding(sig, "replayed case rejected at event %d: %s" % (ln, evs[ln - 1]), case)
