"""C18 - PDU ring buffers keep PDUs intact and in FIFO order.

spec/PduRing/PduRing.tla        property level: live PDUs as [id, off, len], memory as byte tags, the placement rule
spec/PduRing/PduRingImpl.tla    implementation-shaped model (front_/end_/wrap mark); refinement checked by TLC
spec/PduRing/PduRingGen.tla     behaviour generator: every (state, operation) pair of the bounded impl model / random deep
spec/PduRing/PduRingTrace.tla   trace validation of the recorded calls of the real class (tree traces with Undo)
harness/pduring                 replays on pdu_ring_buffer<Size, read_buffer, Layout>, canaries, byte diffs
"""
import json
import os
from concurrent.futures import ThreadPoolExecutor

import vlib

PROPS = ["C18"]
META = {"C18": {
    "text": "TLC checks that the implementation-shaped ring model (front_/end_/wrap mark) refines the property-level "
            "ring (FIFO, live PDUs intact and disjoint, writes inside the storage, alloc fails only when the placement "
            "rule has no room) and enumerates its complete reachable state graph for ring sizes 6..12 and both PDU "
            "layouts; every (state, operation) pair is replayed on the real pdu_ring_buffer<Size, read_buffer, Layout> "
            "on a canary-guarded storage with every PDU filled with its id, and every recorded call (returned region, "
            "bytes changed by the ring, bytes read back) is validated by TLC against the property-level model; random "
            "deep histories at realistic sizes (29..600 bytes, PDUs up to 254 bytes) are validated the same way.",
    "note": "exhaustive for Size 6..12 with at most 4 (quick: 3) live PDUs; realistic sizes by simulation only; PDU "
            "memory sizes <= 254 (251 + layout overhead; beyond 255 push_front narrows to uint8_t, outside the documented "
            "range); default_pdu_layout and the real nrf_details::encrypted_pdu_layout (nrf.hpp over a stub <nrf.h>); "
            "trusted: TLC, harness/pduring (byte diff of the arena), g++/ASan/UBSan.",
    "technique": "TLA+ model checking (TLC, refinement) + TLC-generated behaviour tree replayed on the real class + TLC trace validation",
    "design_ref": "5.4"}}

LAYOUT_MIN = {0: 2, 1: 3}          # layout id -> Layout::data_channel_pdu_memory_size(0)
LAYOUT_NAME = {0: "default_pdu_layout", 1: "nrf_details::encrypted_pdu_layout"}
JOBS = 4


def cfg_codes(cfgs):
    """configurations (Size, layout) -> the integer encoding 10 * Size + MinSz used by the specifications"""
    return "{" + ",".join(str(10 * size + LAYOUT_MIN[layout]) for size, layout in cfgs) + "}"


# ------------------------------------------------------------------------------------------
# behaviours -> scripts
# ------------------------------------------------------------------------------------------
def op_line(op):
    return " ".join(str(x) for x in op)


def tree_scripts(behaviours):
    """behaviours (each starting with ["reset", Size, layout]) -> {(Size, layout): (script lines, number of operations)}:
    a depth first walk through the prefix tree of the behaviours of one configuration; every operation is followed
    by its subtree and an undo"""
    key = lambda kv: [str(x) for x in kv[0]]
    roots = {}
    for b in behaviours:
        node = roots.setdefault((b[0][1], b[0][2]), {})
        for op in b[1:]:
            node = node.setdefault(tuple(op), {})
    res = {}
    for (size, layout), root in sorted(roots.items()):
        lines = ["reset %d %d" % (size, layout)]
        n_ops = 0
        stack = [iter(sorted(root.items(), key=key))]
        while stack:
            try:
                op, child = next(stack[-1])
            except StopIteration:
                stack.pop()
                if stack:
                    lines.append("undo")
                continue
            lines.append(op_line(op) + " u")
            n_ops += 1
            stack.append(iter(sorted(child.items(), key=key)))
        res[(size, layout)] = (lines, n_ops)
    return res


def linear_script(behaviours):
    return [op_line(op) for b in behaviours for op in b]


# ------------------------------------------------------------------------------------------
# signatures
# ------------------------------------------------------------------------------------------
def signature(ev, before):
    """stable description of a rejected event: action + the argument classes that matter.
    `before` = the events of the same operation path that precede it"""
    e = ev.get("e")
    if e == "alloc":
        if not ev.get("r"):
            # where did the PDU released last end (that is where the pointers of an empty ring still stand)?
            size, live, p = ev.get("_Size", 0), [], 0
            for b in before:
                if b["e"] == "Reset":
                    live, p = [], 0
                elif b["e"] == "push":
                    live.append((b["off"], b["len"]))
                elif b["e"] == "pop" and b.get("r") and live:
                    off, ln = live.pop(0)
                    p = off + ln
            if live:
                return "alloc:refused:nonempty"
            stale = ev["size"] > size - p and ev["size"] >= p and ev["size"] <= size - 1
            return "alloc:refused:empty:%s" % ("stale_pointer" if stale else "other")
        return "alloc:granted:%s" % ("bad_w" if ev.get("w") else "region")
    if e == "push":
        return "push:%s" % ("w" if ev.get("w") else "obs")
    if e == "peek":
        return "peek:r=%s" % ev.get("r")
    if e == "pop":
        return "pop:%s" % ("w" if ev.get("w") else "r=%s" % ev.get("r"))
    if e == "Crash":
        return "crash:%s" % ev.get("what")
    return "%s" % e


def path_to(events, idx):
    """the operation path (events, Undo resolved) from the Reset of the execution to events[idx] (inclusive)"""
    path = []          # list of lists: events per operation
    for ev in events[:idx + 1]:
        if ev["e"] == "Reset":
            path = [[ev]]
        elif ev["e"] == "Undo":
            if len(path) > 1:
                path.pop()
        elif ev.get("b"):
            path.append([ev])
        else:
            path[-1].append(ev)
    return [ev for grp in path for ev in grp]


def script_of_events(evs):
    """script that re-executes a recorded operation path"""
    lines = []
    i = 0
    while i < len(evs):
        ev = evs[i]
        e = ev["e"]
        if e == "Reset":
            lines.append("reset %d %d" % (ev["size"], ev["layout"]))
        elif e == "alloc":
            nxt = evs[i + 1] if i + 1 < len(evs) else None
            if nxt is not None and nxt["e"] == "push" and not nxt.get("b"):
                lines.append("push %d %d %d" % (nxt["id"], ev["size"], nxt["len"]))
                i += 1
            else:
                lines.append("alloc %d" % ev["size"])
        elif e == "peek":
            nxt = evs[i + 1] if i + 1 < len(evs) else None
            if nxt is not None and nxt["e"] == "pop" and not nxt.get("b"):
                lines.append("pop")
                i += 1
            else:
                lines.append("peek")
        elif e == "pop":
            lines.append("pop")
        i += 1
    return lines


# ------------------------------------------------------------------------------------------
def run_and_validate(c, exe, jobs, counts):
    """jobs: list of dict(tag, lines, n_paths). Runs the harness and validates every trace (in parallel)."""
    def one(j):
        sp = vlib.write_lines(os.path.join(c.build_dir, "s_%s.txt" % j["tag"]), j["lines"])
        tp = os.path.join(c.build_dir, "t_%s.ndjson" % j["tag"])
        rc, out = vlib.run_harness(exe, [sp, tp])
        if rc != 0:
            raise vlib.ToolFailure("harness failed rc=%d: %s" % (rc, out[-2000:]))
        v = vlib.validate_trace("PduRing", "PduRingTrace.tla", "Trace.cfg", tp, heap="3g")
        return j, tp, v
    with ThreadPoolExecutor(JOBS) as ex:
        results = list(ex.map(one, jobs))
    for j, tp, v in results:
        evs = vlib.read_ndjson(tp)
        for ev in evs:
            counts[ev["e"]] = counts.get(ev["e"], 0) + 1
        c.add_traces(j["n_paths"], v.events)
        if evs and evs[-1]["e"] == "Crash":
            # the harness process died: the remaining executions of this script were not run
            if len(evs) not in v.mismatch_lines:
                v.mismatch_lines.append(len(evs))
            c.note("harness crashed in %s; the rest of that script was not executed" % j["tag"])
        report(c, evs, v.mismatch_lines)
    return results


def report(c, evs, mismatch_lines):
    for ln in mismatch_lines:
        path = path_to(evs, ln - 1)
        size, layout = path[0]["size"], path[0]["layout"]
        ev = dict(path[-1])
        ev["_Size"] = size
        sig = "%s:%s" % (signature(ev, path[:-1]), "nrf" if layout else "default")
        c.finding(sig, "pdu_ring_buffer<%d, read_buffer, %s>: call %s after %d calls is not a step of the ring model"
                  % (size, LAYOUT_NAME[layout], {k: x for k, x in path[-1].items() if k != "b"}, len(path) - 1),
                  {"script": script_of_events(path)})


def split_jobs(tag, scripts, n):
    """distribute per-configuration scripts over n trace files of similar length"""
    bins = [{"tag": "%s%d" % (tag, i), "lines": [], "n_paths": 0} for i in range(n)]
    for key, (lines, n_ops) in sorted(scripts.items(), key=lambda kv: -len(kv[1][0])):
        b = min(bins, key=lambda x: len(x["lines"]))
        b["lines"] += lines
        b["n_paths"] += n_ops
    return [b for b in bins if b["lines"]]


def run(c):
    c.assumptions += [
        "environment keeps the documented preconditions: alloc_front sizes > Layout minimum, pushed PDUs have a non-zero "
        "length field and fit the allocated region, pop_end only on a non-empty ring, one user at a time (sequential calls)",
        "PDU memory sizes <= 254 (documented maximum 251 + layout overhead <= 3); larger sizes are narrowed to uint8_t by push_front",
        "the placement rule is the one stated in PduRing.tla (HasRoom): behind the newest PDU, else strictly below the oldest; "
        "an empty ring takes every PDU of up to Size - 1 bytes (class documentation)",
        "nRF encrypted layout: the real bluetoe::nrf_details::encrypted_pdu_layout from nrf.hpp, included over the stub "
        "harness/pduring/stubs/nrf.h (no register of the stub is ever used)"]
    exe = vlib.build(c, "pduring", ["pduring/pduring_harness.cpp", "pduring/sanitizer_hooks.cpp"],
                     includes=["-I" + vlib.REPO + "/bluetoe/bindings/nordic/include", "-I" + vlib.HARNESS + "/pduring/stubs"])
    if c.replay:
        return replay(c, exe)

    # 1. design level: the property-level ring, and the implementation-shaped model refines it
    vlib.model_check(c, "PduRing", "PduRing.tla", "MC.cfg", workers=JOBS)
    vlib.model_check(c, "PduRing", "PduRingImpl.tla", "MCImpl.cfg", workers=JOBS)
    r = vlib.model_check(c, "PduRing", "PduRingImpl.tla", "MCImplEmpty.cfg", must_hold=False, workers=JOBS, coverage=False)
    c.extra["model_level_findings"] = []
    if r.violated:
        c.extra["model_level_findings"].append(
            "PduRingImpl violates %s (an empty ring whose pointers stand in the middle of the storage refuses PDUs of "
            "up to Size - 1 bytes); the same histories are replayed on the real class below" % r.violated)

    # 2. exhaustive: complete reachable state graph of the impl model per (Size, layout); every transition replayed
    small = [(s, l) for s in ((6, 7, 8, 9, 10) if c.quick else (6, 7, 8, 9, 10, 11, 12)) for l in (0, 1)]
    maxlive = 3 if c.quick else 4
    counts = {}
    cfg = vlib.write_cfg(c, "gen.cfg", "CONSTANTS MaxLive = %d  Configs = %s  Alphabet = \"full\"  D = 60  EmitAll = TRUE\n"
                         "SPECIFICATION GSpec\nVIEW View\nCHECK_DEADLOCK FALSE\n" % (maxlive, cfg_codes(small)))
    r = vlib.tlc("PduRing", "PduRingGen.tla", cfg, workers=JOBS, heap="6g")
    if r.violated or r.error or not r.completed:
        raise vlib.ToolFailure("generator failed: %s %s\n%s" % (r.violated, r.error, r.out[-3000:]))
    if r.depth >= 60:
        raise vlib.ToolFailure("generator did not reach the closure of the state graph")
    c.add_model_run("PduRingGen", "Configs=%s MaxLive=%d (complete graph)" % (cfg_codes(small), maxlive), r)
    behs = vlib.behaviours(r)
    scripts = tree_scripts(behs)
    if set(scripts) != set(small):
        raise vlib.ToolFailure("generator did not cover all configurations: %s" % sorted(scripts))
    c.extra["exhaustive_graph"] = {"model_states": r.distinct, "model_transitions": r.generated, "graph_depth": r.depth, "max_live": maxlive,
                             "operations_replayed": {"%d/%s" % (k[0], LAYOUT_NAME[k[1]]): v[1] for k, v in sorted(scripts.items())}}
    c.sample({"what": "longest generated history (Size 10, default layout)",
              "behaviour": max((b for b in behs if b[0][1] == 10 and b[0][2] == 0), key=len)})
    run_and_validate(c, exe, split_jobs("ex", scripts, JOBS), counts)
    c.exhaustive = True

    # 3. realistic sizes: random deep histories from the same generator model
    real = [(29, 0), (30, 1), (50, 0), (61, 0), (61, 1), (100, 0), (100, 1), (255, 0), (256, 1), (300, 0), (300, 1), (600, 1)]
    nsim, dsim = (240, 40) if c.quick else (2000, 60)
    cfg = vlib.write_cfg(c, "sim.cfg", "CONSTANTS MaxLive = 6  Configs = %s  Alphabet = \"real\"  D = %d  EmitAll = FALSE\n"
                         "SPECIFICATION GSpec\nCHECK_DEADLOCK FALSE\n" % (cfg_codes(real), dsim))
    r = vlib.tlc("PduRing", "PduRingGen.tla", cfg, workers=JOBS, heap="6g", simulate=(nsim + JOBS - 1) // JOBS, depth=dsim + 2, seed=c.seed)
    if r.violated or r.error:
        raise vlib.ToolFailure("simulation failed: %s %s\n%s" % (r.violated, r.error, r.out[-3000:]))
    behs = vlib.behaviours(r)[:nsim]
    if not behs:
        raise vlib.ToolFailure("simulation produced nothing\n%s" % r.out[-2000:])
    c.sample({"what": "random history at a realistic size", "behaviour": behs[0]})
    by_cfg = {}
    for b in behs:
        by_cfg[(b[0][1], b[0][2])] = by_cfg.get((b[0][1], b[0][2]), 0) + 1
    c.extra["simulated"] = {"depth": dsim, "behaviours": {"%d/%s" % (k[0], LAYOUT_NAME[k[1]]): n for k, n in sorted(by_cfg.items())}}
    jobs = [{"tag": "sim%d" % i, "lines": linear_script(part), "n_paths": len(part)} for i, part in enumerate(vlib.chunks(behs, JOBS))]
    run_and_validate(c, exe, jobs, counts)
    c.extra["events_by_action"] = counts
    for need in ("Reset", "alloc", "push", "peek", "pop", "Undo"):
        if not counts.get(need):
            raise vlib.ToolFailure("vacuous: no %s event was validated" % need)


def replay(c, exe):
    case = json.load(open(c.replay))["case"]
    vlib.model_check(c, "PduRing", "PduRing.tla", "MC.cfg", workers=JOBS)        # the oracle itself, for the evidence record
    sp = vlib.write_lines(os.path.join(c.build_dir, "replay.txt"), case["script"])
    tp = os.path.join(c.build_dir, "replay.ndjson")
    vlib.run_harness(exe, [sp, tp])
    v = vlib.validate_trace("PduRing", "PduRingTrace.tla", "Trace.cfg", tp)
    evs = vlib.read_ndjson(tp)
    c.add_traces(1, v.events)
    c.sample(evs[-6:])
    if evs and evs[-1]["e"] == "Crash" and len(evs) not in v.mismatch_lines:
        v.mismatch_lines.append(len(evs))
    report(c, evs, v.mismatch_lines)
    if not v.mismatch_lines:
        c.note("replayed case is accepted by the specification")
