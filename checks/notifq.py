"""C11, C12 - outgoing notification queue (bluetoe/notification_queue.hpp).

spec/NotifQueue/NotifQueue.tla          property-level model: set of pending <<index, kind>>, outstanding indication,
                                        priority partition, fairness ghost; the C12 / C11 properties; liveness
spec/NotifQueue/NotifQueueImpl.tla      implementation-shaped machine (2 bits per entry, next_, Size = 1 specialisation)
spec/NotifQueue/NotifQueueImplRef.tla   machine vs. property model: refinement, liveness, monitor that names every
                                        machine step the property does not allow (with a shortest history)
spec/NotifQueue/NotifQueueImplGen.tla   behaviour generator: all edges of the machine graph / random deep walks
spec/NotifQueue/NotifQueueTrace.tla     trace validation of the calls recorded from the real class
spec/NotifQueue/NotifQueueAtt*.tla      C11 at ATT level (real server + connection, PDUs 0x1B / 0x1D / 0x1E)
harness/notifq/notifq_harness.cpp       replays call scripts on notification_queue<tuple<integral_constant<int,N>...>, Mixin>
harness/notifq/notifq_att_harness.cpp   replays notify / indicate / poll / confirm scripts on bluetoe::server
"""
import json
import os
import random
import re
from collections import deque

import vlib

PROPS = ["C11", "C12"]
META = {
    "C11": {
        "text": "TLC checks on the property-level queue model that at most one indication is outstanding, that "
                "notifications continue, and (fair spec, finite model, no constraint) that every accepted indication is "
                "eventually handed out; the implementation-shaped machine is checked against it (refinement monitor, "
                "liveness). Every edge of the machine graph of all 14 priority partitions of 1..4 entries plus random deep "
                "walks (also sizes 5 and 9) is replayed on the real notification_queue and every call is validated by TLC; "
                "walks end with 'confirm + dequeue until empty' after which nothing may be pending. At ATT level a real "
                "bluetoe::server + connection is driven with TLC-generated indicate/notify/poll/confirm sequences "
                "(confirmations of wrong length included) and the emitted PDUs (0x1B, 0x1D, error responses) are validated.",
        "note": "liveness is decided on the models (bounded partitions); on the code its finite shadow (drain) and the "
                "fairness safety property are checked; link-layer level delivery (confirmation in a later connection "
                "event) belongs to the link layer checks; trusted: TLC, harness/notifq, g++/ASan.",
        "technique": "TLA+ model checking incl. liveness (TLC) + TLC-generated behaviours replayed on the real class / "
                     "server + TLC trace validation",
        "design_ref": "5.2"},
    "C12": {
        "text": "TLC explores the property-level queue model (pending set, newly-queued exact, each pending request "
                "dequeued once, priority order, one-round fairness via an overtaking ghost) and checks the "
                "implementation-shaped machine (general bit array + next_, Size=1 specialisation, chained levels) against "
                "it. Every edge of the machine graph of every partition of 1..4 entries into <= 3 levels (single-entry "
                "levels included) plus random deep walks (also sizes 5, 9 crossing the 4-per-byte boundary) is replayed "
                "on the real notification_queue<tuple<integral_constant<int,N>...>, Mixin>; every call's result is "
                "validated by TLC against the property-level model.",
        "note": "bounded: partitions of <= 4 entries exhaustively (edge coverage of the machine model), sizes 5/9 by "
                "random walks; single-context only (interrupt interleavings are C13); trusted: TLC, harness/notifq, g++/ASan.",
        "technique": "TLA+ model checking (TLC) + TLC-generated behaviours replayed on the real class + TLC trace validation",
        "design_ref": "5.2"},
}

MOD = "NotifQueue"


def compositions(n, maxparts=3):
    out = []

    def rec(rest, cur):
        if rest == 0:
            out.append(tuple(cur))
            return
        if len(cur) == maxparts:
            return
        for k in range(1, rest + 1):
            rec(rest - k, cur + [k])
    rec(n, [])
    return out


SMALL = [tuple(list(p) + [0] * (3 - len(p))) for n in range(1, 5) for p in compositions(n)]      # 14 partitions
BIG = [(5, 0, 0), (9, 0, 0), (1, 5, 0), (5, 4, 0)]


def pname(p):
    return "%d_%d_%d" % p


def sizes_consts(p):
    return "S1 = %d S2 = %d S3 = %d" % p


def has_single(p):
    return 1 in p


# ------------------------------------------------------------------------------------------------------------------
# finding classes -> signatures
# ------------------------------------------------------------------------------------------------------------------
def signatures(why):
    """why: the JSON list printed by WhyEv / Why  ->  list of (signature, properties it concerns)"""
    if not why:
        return [("unclassified", ("C11", "C12"))]
    head = why[0]
    if head == "queue":
        # ["queue", kind, "r=..", "pending=..", "other_kind_pending=..", "single_entry_level=.."]
        return [(":".join(str(x) for x in why), ("C12",))]
    if head == "dequeue":
        what = why[1]
        if what == "overtaken_twice":
            res = []
            for vk, sib, blk in sorted(why[2]):
                res.append(("dequeue:overtaken_twice:victim=%s:was_blocked=%s:own_other_kind_preferred=%s" % (vk, blk, sib),
                            ("C11", "C12") if vk == "i" else ("C12",)))
            return res
        if what == "indication_while_awaiting_confirmation":
            return [("dequeue:" + what, ("C11",))]
        if what == "empty_but_dequeuable":
            kinds = "+".join(sorted(why[2]))
            props = ("C11", "C12") if ("i" in why[2] or why[3].endswith("=1")) else ("C12",)
            return [("dequeue:%s:kinds=%s:%s" % (what, kinds, why[3]), props)]
        if what == "not_pending":
            return [("dequeue:not_pending:%s" % why[2], ("C11", "C12") if why[2] == "i" else ("C12",))]
        return [("dequeue:" + ":".join(str(x) for x in why[1:]), ("C11", "C12"))]
    if head == "drained":
        return [("drained:still_pending:kinds=%s:%s" % ("+".join(sorted(why[2])), why[3]), ("C11", "C12"))]
    if head == "crash":
        return [("crash:%s" % why[1], ("C11", "C12"))]
    return [(":".join(str(x) for x in why), ("C11", "C12"))]


def parse_why(out):
    """<<"WHY", l, "json">> lines of a trace validation run -> {line: list}"""
    res = {}
    for m in re.finditer(r'^<<"WHY", (\d+), (".*")>>\s*$', out, re.M):
        v = vlib.parse_tla_value(m.group(2))
        try:
            res[int(m.group(1))] = json.loads(v)
        except (ValueError, TypeError):
            res[int(m.group(1))] = ["unparsed", str(v)]
    return res


# ------------------------------------------------------------------------------------------------------------------
# scripts <-> events
# ------------------------------------------------------------------------------------------------------------------
def script_of(p, behaviour, drain=True):
    lines = ["reset %d %d %d" % p]
    for op in behaviour:
        lines.append(" ".join(str(x) for x in op))
    if drain:
        lines.append("drain")
    return lines


def ops_of_events(evs):
    ops = []
    for ev in evs:
        e = ev["e"]
        if e == "Reset":
            ops.append("reset %d %d %d" % tuple(ev["s"]))
        elif e in ("qn", "qi"):
            ops.append("%s %d" % (e, ev["i"]))
        elif e in ("dq", "cf", "cl"):
            ops.append(e)
        elif e == "Drained":
            ops.append("mark")
    return ops


# ------------------------------------------------------------------------------------------------------------------
# edge covering walks over the machine graph printed by NotifQueueImplGen (mode "edges")
# ------------------------------------------------------------------------------------------------------------------
def covering_walks(prints, cap, rng):
    init = None
    adj = {}
    for pr in prints:
        if pr[0] == "I":
            init = pr[1]
        elif pr[0] == "E":
            adj.setdefault(pr[1], {})[pr[2]] = pr[3]
    if init is None or not adj:
        raise vlib.ToolFailure("generator printed no graph")
    todo = {s: set(ops) for s, ops in adj.items()}
    n_edges = sum(len(o) for o in todo.values())
    remaining = n_edges
    walks, cur, walk = [], init, []

    def path_to_uncovered(src):
        seen = {src: None}
        dq = deque([src])
        while dq:
            s = dq.popleft()
            if todo.get(s):
                path = []
                while seen[s] is not None:
                    s, op = seen[s][0], seen[s][1]
                    path.append(op)
                path.reverse()
                return path
            for op, t in adj.get(s, {}).items():
                if t not in seen:
                    seen[t] = (s, op)
                    dq.append(t)
        return None

    while remaining:
        if len(walk) >= cap:
            walks.append(walk)
            walk, cur = [], init
        if todo.get(cur):
            op = rng.choice(sorted(todo[cur]))
            todo[cur].discard(op)
            remaining -= 1
            walk.append(op)
            cur = adj[cur][op]
            continue
        path = path_to_uncovered(cur)
        if path is None:            # rest only reachable from the initial state
            walks.append(walk)
            walk, cur = [], init
            path = path_to_uncovered(cur)
            if path is None:
                raise vlib.ToolFailure("uncovered edges are unreachable")
        for op in path:
            walk.append(op)
            cur = adj[cur][op]
    if walk:
        walks.append(walk)
    return [[json.loads(op) for op in w] for w in walks], len(adj), n_edges


# ------------------------------------------------------------------------------------------------------------------
def gen_cfg(c, p, mode, d, nomix, name):
    return vlib.write_cfg(c, name, "CONSTANTS %s FixSingle = FALSE Mode = \"%s\" D = %d NoMix = %s\n"
                                   "SPECIFICATION GSpec\nINVARIANTS MTypeOK Emit\nCHECK_DEADLOCK FALSE\n"
                          % (sizes_consts(p), mode, d, "TRUE" if nomix else "FALSE"))


def trace_cfg(c, p):
    return vlib.write_cfg(c, "trace_%s.cfg" % pname(p), "CONSTANTS %s TrackLast = FALSE\nSPECIFICATION TSpec\n"
                                                        "INVARIANTS TypeOK GhostOK\nCHECK_DEADLOCK FALSE\n" % sizes_consts(p))


def model_level(c, workers):
    """design level: property model, machine vs. property model; returns model counterexample behaviours per partition"""
    quick = c.quick
    # 1. the property-level model and its listed properties
    for p in ([(2, 0, 0), (1, 1, 0)] if quick else [(2, 0, 0), (1, 1, 0), (1, 2, 0), (2, 1, 0)]):
        cfg = vlib.write_cfg(c, "mc_%s.cfg" % pname(p),
                             "CONSTANTS %s TrackLast = TRUE\nSPECIFICATION Spec\n"
                             "INVARIANTS TypeOK GhostOK DequeuePossible NotificationsContinue\n"
                             "PROPERTIES NewlyQueuedExact EachPendingDequeuedOnce PriorityOrder OneRoundFairness "
                             "AtMostOneOutstanding\n" % sizes_consts(p))
        vlib.model_check(c, MOD, "NotifQueue.tla", cfg, workers=workers)
    # 2. liveness of the property-level model (fair spec, no constraint)
    for p in ([(2, 0, 0)] if quick else [(2, 0, 0), (1, 1, 0), (1, 2, 0)]):
        cfg = vlib.write_cfg(c, "live_%s.cfg" % pname(p), "CONSTANTS %s TrackLast = FALSE\nSPECIFICATION FairSpec\n"
                                                          "PROPERTIES EventuallySent\n" % sizes_consts(p))
        vlib.model_check(c, MOD, "NotifQueue.tla", cfg, workers=workers, coverage=False)
    # 3. machine vs. property model in an environment where every level carries one kind only: must refine + be live
    def ref_cfg(p, name, nidx, iidx, spec, props, hist, last=True):
        n = sum(p)
        return vlib.write_cfg(c, name, "CONSTANTS %s FixSingle = FALSE TrackLast = %s TrackHist = %s NIdx = {%s} IIdx = {%s}\n"
                                       "SPECIFICATION %s\n%sINVARIANTS MTypeOK\n%sCHECK_DEADLOCK FALSE\n"
                              % (sizes_consts(p), "TRUE" if last else "FALSE", "TRUE" if hist else "FALSE",
                                 ",".join(str(i) for i in nidx), ",".join(str(i) for i in iidx), spec,
                                 "VIEW RView\n" if hist else "",
                                 ("PROPERTIES %s\n" % props) if props else ""))
    homog = [((2, 1, 0), [2], [0, 1]), ((1, 2, 0), [1, 2], [0])] if quick else \
            [((2, 1, 0), [2], [0, 1]), ((1, 2, 0), [1, 2], [0]), ((3, 0, 0), [], [0, 1, 2]), ((3, 0, 0), [0, 1, 2], []),
             ((1, 1, 2), [0, 2, 3], [1])]
    for k, (p, nidx, iidx) in enumerate(homog):
        cfg = ref_cfg(p, "refh_%d.cfg" % k, nidx, iidx, "RSpec", "Refines", False)
        vlib.model_check(c, MOD, "NotifQueueImplRef.tla", cfg, workers=workers, coverage=False)
        cfg = ref_cfg(p, "refhl_%d.cfg" % k, nidx, iidx, "RFairSpec", "EventuallySent", False, last=False)
        vlib.model_check(c, MOD, "NotifQueueImplRef.tla", cfg, workers=workers, coverage=False)
    # 4. machine as it is, all calls: the monitor names every step the property does not allow
    counter = {}
    classes = {}
    for p in ([(2, 0, 0), (1, 1, 0), (1, 2, 0)] if quick else [(2, 0, 0), (1, 1, 0), (1, 2, 0), (2, 1, 0), (3, 0, 0), (1, 1, 1)]):
        n = sum(p)
        cfg = ref_cfg(p, "refm_%s.cfg" % pname(p), range(n), range(n), "RSpec", "", True)
        r = vlib.tlc(MOD, "NotifQueueImplRef.tla", cfg, workers=workers)
        c.add_model_run("NotifQueueImplRef", os.path.basename(cfg), r)
        if r.error or not r.completed:
            raise vlib.ToolFailure("monitor run failed: %s\n%s" % (r.error, r.out[-3000:]))
        best = {}
        for pr in r.prints:
            if pr and pr[0] == "FINDING":
                cls, hist = pr[1], json.loads(pr[2])
                classes[cls] = classes.get(cls, 0) + 1
                if cls not in best or len(hist) < len(best[cls]):
                    best[cls] = hist
        counter[p] = list(best.values())
    c.extra["model_predicted_finding_classes"] = {k: v for k, v in sorted(classes.items())}
    c.note("machine model as-is: %d classes of steps not allowed by the property model (each replayed on the real code)"
           % len(classes))
    # 5. liveness of the machine as it is (expected to fail through the fairness defects; bound to the code by the
    #    'overtaken_twice' safety findings of the replayed traces)
    if c.prop == "C11":
        p = (2, 0, 0)
        cfg = ref_cfg(p, "refl_%s.cfg" % pname(p), range(2), range(2), "RFairSpec", "IndicationsEventuallySent", False, last=False)
        r = vlib.model_check(c, MOD, "NotifQueueImplRef.tla", cfg, workers=workers, coverage=False, must_hold=False)
        c.extra["machine_liveness_as_is"] = "violated (lasso found)" if r.violated else "holds"
        c.note("machine as-is, fair spec, IndicationsEventuallySent on %s: %s" % (pname(p), c.extra["machine_liveness_as_is"]))
    return counter


def run(c):
    workers = int(os.environ.get("VERIF_TLC_WORKERS", "0")) or None
    c.assumptions += ["single context: calls do not overlap (interrupt interleavings are C13)",
                      "index < Size for every call (documented precondition)",
                      "one-round fairness is read as: while a request is pending and could be handed out, no other request "
                      "of its priority level is handed out twice",
                      "liveness: weak fairness on 'dequeue' and on the arrival of the awaited confirmation; a request may wait "
                      "while a higher priority level has something to send"]
    exe = vlib.build(c, "notifq", ["notifq/notifq_harness.cpp"])
    if c.replay:
        return replay(c, exe)
    counter = model_level(c, workers)
    queue_level(c, exe, counter, workers)
    if c.prop == "C11":
        att_level(c, workers)


def queue_level(c, exe, counter, workers):
    rng = random.Random(c.seed)
    quick = c.quick
    cap = 300
    per_part = {}
    graph = {}
    # a. every edge of the machine graph
    for p in SMALL:
        cfg = gen_cfg(c, p, "edges", 0, False, "edges_%s.cfg" % pname(p))
        r = vlib.tlc(MOD, "NotifQueueImplGen.tla", cfg, workers=workers)
        if r.violated or r.error or not r.completed:
            raise vlib.ToolFailure("edge generator failed for %s: %s %s\n%s" % (p, r.violated, r.error, r.out[-2000:]))
        c.add_model_run("NotifQueueImplGen", os.path.basename(cfg), r)
        walks, n_states, n_edges = covering_walks(r.prints, cap, rng)
        graph[pname(p)] = {"states": n_states, "edges": n_edges, "walks": len(walks), "calls": sum(len(w) for w in walks)}
        per_part[p] = [("edge", w) for w in walks]
    c.extra["machine_graph_edge_cover"] = graph
    c.exhaustive = True
    # b. the model's counterexamples
    for p, behs in counter.items():
        per_part.setdefault(p, [])
        per_part[p] += [("model_cex", b) for b in behs]
    # c. random deep walks (both profiles), all partitions incl. the big ones
    nwalk, depth = (30, 120) if quick else (1500, 200)
    for p in SMALL + BIG:
        if p in BIG:
            nw = nwalk * 3
        else:
            nw = nwalk
        for nomix in ([False, True] if has_single(p) else [False]):
            cfg = gen_cfg(c, p, "walks", depth, nomix, "walks_%s_%d.cfg" % (pname(p), nomix))
            per_w = max(1, nw // 4)
            behs = vlib.generate(c, MOD, "NotifQueueImplGen.tla", cfg, simulate=per_w, depth=depth + 1, seed=c.seed, workers=4)[:nw]
            per_part.setdefault(p, [])
            per_part[p] += [("walk_nomix" if nomix else "walk", b) for b in behs]
    # replay everything on the real class, one trace file per partition (the partition is a constant of the trace spec)
    jobs = []
    for p, behs in per_part.items():
        lines = []
        for kind, b in behs:
            lines += script_of(p, b)
        sp = vlib.write_lines(os.path.join(c.build_dir, "s_%s.txt" % pname(p)), lines)
        tp = os.path.join(c.build_dir, "t_%s.ndjson" % pname(p))
        rc, out = vlib.run_harness(exe, [sp, tp])
        if rc != 0:
            raise vlib.ToolFailure("harness failed rc=%d: %s" % (rc, out[-2000:]))
        jobs.append((p, tp))
    c.sample({"partition": list(SMALL[5]), "behaviour": per_part[SMALL[5]][0][1][:40]})
    by_action = {}
    # biggest traces first
    jobs.sort(key=lambda j: -os.path.getsize(j[1]))
    verdicts = validate_many(c, jobs)
    for (p, tp), v in zip(jobs, verdicts):
        execs = vlib.split_executions(tp)
        c.add_traces(len(execs), v.events)
        for _, evs in execs:
            for ev in evs:
                by_action[ev["e"]] = by_action.get(ev["e"], 0) + 1
        why = parse_why(v.out)
        report(c, p, execs, v.mismatch_lines, why)
    c.extra["events_by_action"] = by_action
    for a in ("Reset", "qn", "qi", "dq", "cf", "cl", "Drained"):
        if not by_action.get(a):
            raise vlib.ToolFailure("vacuous: no '%s' event in the validated traces" % a)
    if len(execs):
        c.sample({"partition": list(jobs[-1][0]), "trace": vlib.split_executions(jobs[-1][1])[0][1][:30]})


def validate_many(c, jobs):
    from concurrent.futures import ThreadPoolExecutor
    n = max(1, min(len(jobs), vlib.NCPU // 2))
    with ThreadPoolExecutor(n) as ex:
        return list(ex.map(lambda j: vlib.validate_trace(MOD, "NotifQueueTrace.tla", trace_cfg(c, j[0]), j[1]), jobs))


def report(c, p, execs, mismatch_lines, why):
    for ln in mismatch_lines:
        first, evs = [e for e in execs if e[0] <= ln][-1]
        ev = evs[ln - first]
        for sig, props in signatures(why.get(ln)):
            if c.prop not in props:
                c.extra.setdefault("mismatches_of_other_property", {})
                c.extra["mismatches_of_other_property"][sig] = c.extra["mismatches_of_other_property"].get(sig, 0) + 1
                continue
            c.finding("queue:%s" % sig,
                      "notification_queue<%s>: call %s is not a step of the property model (%s)" % (pname(p), ev, why.get(ln)),
                      {"level": "queue", "sizes": list(p), "ops": ops_of_events(evs[:ln - first + 1])})


def replay(c, exe):
    case = json.load(open(c.replay))["case"]
    if case.get("level") == "att":
        return att_replay(c, case)
    p = tuple(case["sizes"])
    sp = vlib.write_lines(os.path.join(c.build_dir, "replay.txt"), case["ops"])
    tp = os.path.join(c.build_dir, "replay.ndjson")
    rc, out = vlib.run_harness(exe, [sp, tp])
    if rc != 0:
        raise vlib.ToolFailure("harness failed rc=%d: %s" % (rc, out[-2000:]))
    v = vlib.validate_trace(MOD, "NotifQueueTrace.tla", trace_cfg(c, p), tp)
    execs = vlib.split_executions(tp)
    c.add_traces(len(execs), v.events)
    c.sample(execs[0][1][:60])
    report(c, p, execs, v.mismatch_lines, parse_why(v.out))


# ------------------------------------------------------------------------------------------------------------------
# C11 at ATT level
# ------------------------------------------------------------------------------------------------------------------
def att_level(c, workers):
    pass


def att_replay(c, case):
    pass
