"""C11, C12 - outgoing notification queue (bluetoe/notification_queue.hpp).

spec/NotifQueue/NotifQueue.tla          property-level model: set of pending <<index, kind>>, outstanding indication,
                                        priority partition, fairness ghost; the C12 / C11 properties; liveness
spec/NotifQueue/NotifQueueImpl.tla      implementation-shaped machine (2 bits per entry, next_, Size = 1 specialisation)
spec/NotifQueue/NotifQueueImplRef.tla   machine vs. property model: refinement, liveness, monitor that names every
                                        machine step the property does not allow (with a shortest history)
spec/NotifQueue/NotifQueueImplGen.tla   behaviour generator: all edges of the machine graph / random deep walks
spec/NotifQueue/NotifQueueTrace.tla     trace validation of the calls recorded from the real class
spec/NotifQueue/NotifQueueAtt*.tla      C11 at ATT level (real server + connection, PDUs 0x1B / 0x1D / 0x1E)
harness/notifq/notifq_harness.cpp       replays call scripts on notification_queue<tuple<integral_constant<int,N>...>, Mixin>
harness/notifq/notifq_att_harness.cpp   replays notify / indicate / poll / confirm scripts on bluetoe::server
"""
import json
import os
import random
import re
from collections import deque

import vlib

PROPS = ["C11", "C12"]
META = {
    "C11": {
        "text": "TLC checks on the property-level queue model that at most one indication is outstanding, that "
                "notifications continue, and (fair spec, finite model, no constraint) that every accepted indication is "
                "eventually handed out; the implementation-shaped machine is checked against it (refinement monitor, "
                "liveness). Every edge of the machine graph of the priority partitions (thorough: all 14 partitions of 1..4 entries into "
                "<= 3 levels; quick: the 7 partitions of <= 3 entries, 4 entries by random walks) plus random deep "
                "walks (also sizes 5 and 9) is replayed on the real notification_queue and every call is validated by TLC; "
                "walks end with 'confirm + dequeue until empty' after which nothing may be pending. At ATT level a real "
                "bluetoe::server + connection is driven with TLC-generated indicate/notify/poll/confirm sequences "
                "(confirmations of wrong length included) and the emitted PDUs (0x1B, 0x1D, error responses) are validated.",
        "note": "liveness is decided on the models (bounded partitions); on the code its finite shadow (drain) and the "
                "fairness safety property are checked; link-layer level delivery (confirmation in a later connection "
                "event) belongs to the link layer checks; trusted: TLC, harness/notifq, g++/ASan.",
        "technique": "TLA+ model checking incl. liveness (TLC) + TLC-generated behaviours replayed on the real class / "
                     "server + TLC trace validation",
        "design_ref": "5.2"},
    "C12": {
        "text": "TLC explores the property-level queue model (pending set, newly-queued exact, each pending request "
                "dequeued once, priority order, one-round fairness via an overtaking ghost) and checks the "
                "implementation-shaped machine (general bit array + next_, Size=1 specialisation, chained levels) against "
                "it. Every edge of the machine graph of every partition of 1..4 entries into <= 3 levels (single-entry "
                "levels included; quick tier: edges for <= 3 entries, 4 entries by random walks) plus random deep walks (also sizes 5, 9 crossing the 4-per-byte boundary) is replayed "
                "on the real notification_queue<tuple<integral_constant<int,N>...>, Mixin>; every call's result is "
                "validated by TLC against the property-level model.",
        "note": "bounded: partitions of <= 4 entries exhaustively (edge coverage of the machine model), sizes 5/9 by "
                "random walks; single-context only (interrupt interleavings are C13); trusted: TLC, harness/notifq, g++/ASan.",
        "technique": "TLA+ model checking (TLC) + TLC-generated behaviours replayed on the real class + TLC trace validation",
        "design_ref": "5.2"},
}

MOD = "NotifQueue"


def compositions(n, maxparts=3):
    out = []

    def rec(rest, cur):
        if rest == 0:
            out.append(tuple(cur))
            return
        if len(cur) == maxparts:
            return
        for k in range(1, rest + 1):
            rec(rest - k, cur + [k])
    rec(n, [])
    return out


SMALL = [tuple(list(p) + [0] * (3 - len(p))) for n in range(1, 5) for p in compositions(n)]      # 14 partitions
BIG = [(5, 0, 0), (9, 0, 0), (1, 5, 0), (5, 4, 0)]


def pname(p):
    return "%d_%d_%d" % p


def sizes_consts(p):
    return "S1 = %d S2 = %d S3 = %d" % p


def has_single(p):
    return 1 in p


# ------------------------------------------------------------------------------------------------------------------
# finding classes -> signatures
# ------------------------------------------------------------------------------------------------------------------
def signatures(why):
    """why: the JSON list printed by WhyEv / Why  ->  list of (signature, properties it concerns)"""
    if not why:
        return [("unclassified", ("C11", "C12"))]
    head = why[0]
    if head == "queue":
        # ["queue", kind, "r=..", "pending=..", "other_kind_pending=..", "single_entry_level=.."]
        return [(":".join(str(x) for x in why), ("C12",))]
    if head == "dequeue":
        what = why[1]
        if what == "overtaken_twice":
            res = []
            for vk, sib, blk in sorted(why[2]):
                res.append(("dequeue:overtaken_twice:victim=%s:was_blocked=%s:own_other_kind_preferred=%s" % (vk, blk, sib),
                            ("C11", "C12") if vk == "i" else ("C12",)))
            return res
        if what == "indication_while_awaiting_confirmation":
            return [("dequeue:" + what, ("C11",))]
        if what == "empty_but_dequeuable":
            kinds = "+".join(sorted(why[2]))
            props = ("C11", "C12") if ("i" in why[2] or why[3].endswith("=1")) else ("C12",)
            return [("dequeue:%s:kinds=%s:%s" % (what, kinds, why[3]), props)]
        if what == "not_pending":
            return [("dequeue:not_pending:%s" % why[2], ("C11", "C12") if why[2] == "i" else ("C12",))]
        return [("dequeue:" + ":".join(str(x) for x in why[1:]), ("C11", "C12"))]
    if head == "drained":
        return [("drained:still_pending:kinds=%s:%s" % ("+".join(sorted(why[2])), why[3]), ("C11", "C12"))]
    if head == "crash":
        return [("crash:%s" % why[1], ("C11", "C12"))]
    return [(":".join(str(x) for x in why), ("C11", "C12"))]


def parse_why(out):
    """<<"WHY", l, "json">> lines of a trace validation run -> {line: list}"""
    res = {}
    for m in re.finditer(r'^<<"WHY", (\d+), (".*")>>\s*$', out, re.M):
        v = vlib.parse_tla_value(m.group(2))
        try:
            res[int(m.group(1))] = json.loads(v)
        except (ValueError, TypeError):
            res[int(m.group(1))] = ["unparsed", str(v)]
    return res


# ------------------------------------------------------------------------------------------------------------------
# scripts <-> events
# ------------------------------------------------------------------------------------------------------------------
def script_of(p, behaviour, drain=True):
    lines = ["reset %d %d %d" % p]
    for op in behaviour:
        lines.append(" ".join(str(x) for x in op))
    if drain:
        lines.append("drain")
    return lines


def ops_of_events(evs):
    ops = []
    for ev in evs:
        e = ev["e"]
        if e == "Reset":
            ops.append("reset %d %d %d" % tuple(ev["s"]))
        elif e in ("qn", "qi"):
            ops.append("%s %d" % (e, ev["i"]))
        elif e in ("dq", "cf", "cl"):
            ops.append(e)
        elif e == "Drained":
            ops.append("mark")
    return ops


# ------------------------------------------------------------------------------------------------------------------
# edge covering walks over the machine graph printed by NotifQueueImplGen (mode "edges")
# ------------------------------------------------------------------------------------------------------------------
def covering_walks(prints, cap, rng):
    init = None
    adj = {}
    for pr in prints:
        if pr[0] == "I":
            init = pr[1]
        elif pr[0] == "E":
            adj.setdefault(pr[1], {})[pr[2]] = pr[3]
    if init is None or not adj:
        raise vlib.ToolFailure("generator printed no graph")
    todo = {s: set(ops) for s, ops in adj.items()}
    n_edges = sum(len(o) for o in todo.values())
    remaining = n_edges
    walks, cur, walk = [], init, []

    def path_to_uncovered(src):
        seen = {src: None}
        dq = deque([src])
        while dq:
            s = dq.popleft()
            if todo.get(s):
                path = []
                while seen[s] is not None:
                    s, op = seen[s][0], seen[s][1]
                    path.append(op)
                path.reverse()
                return path
            for op, t in adj.get(s, {}).items():
                if t not in seen:
                    seen[t] = (s, op)
                    dq.append(t)
        return None

    while remaining:
        if len(walk) >= cap:
            walks.append(walk)
            walk, cur = [], init
        if todo.get(cur):
            op = rng.choice(sorted(todo[cur]))
            todo[cur].discard(op)
            remaining -= 1
            walk.append(op)
            cur = adj[cur][op]
            continue
        path = path_to_uncovered(cur)
        if path is None:            # rest only reachable from the initial state
            walks.append(walk)
            walk, cur = [], init
            path = path_to_uncovered(cur)
            if path is None:
                raise vlib.ToolFailure("uncovered edges are unreachable")
        for op in path:
            walk.append(op)
            cur = adj[cur][op]
    if walk:
        walks.append(walk)
    return [[json.loads(op) for op in w] for w in walks], len(adj), n_edges


# ------------------------------------------------------------------------------------------------------------------
def n_parallel():
    w = int(os.environ.get("VERIF_TLC_WORKERS", "0")) or vlib.NCPU
    return max(1, w // 2)


def par_tlc(jobs):
    """jobs: list of dicts of vlib.tlc keyword arguments (module, cfg, ...) -> list of TlcResult, run concurrently
    (2 workers each; VERIF_TLC_WORKERS limits the total)."""
    from concurrent.futures import ThreadPoolExecutor

    def one(j):
        j = dict(j)
        module, cfg = j.pop("module"), j.pop("cfg")
        j.setdefault("workers", 2)
        return vlib.tlc(MOD, module, cfg, **j)
    with ThreadPoolExecutor(n_parallel()) as ex:
        return list(ex.map(one, jobs))


def settle(c, module, cfg, r, must_hold=True):
    """what vlib.model_check does with a result (evidence + tool failure on a model error)"""
    if r.error and re.search(r"Temporal propert\w+ .*violated", r.error):     # wording vlib does not know
        r.violated, r.error = r.violated or "temporal", None
    c.add_model_run(module, os.path.basename(cfg), r)
    if r.error or (must_hold and r.violated) or (not r.completed and not r.violated):
        raise vlib.ToolFailure("model check %s %s failed: violated=%s error=%s\n%s" % (module, cfg, r.violated, r.error, r.out[-4000:]))
    return r


def gen_cfg(c, p, mode, d, nomix, name):
    return vlib.write_cfg(c, name, "CONSTANTS %s FixSingle = FALSE Mode = \"%s\" D = %d NoMix = %s\n"
                                   "SPECIFICATION GSpec\nINVARIANTS MTypeOK Emit\nCHECK_DEADLOCK FALSE\n"
                          % (sizes_consts(p), mode, d, "TRUE" if nomix else "FALSE"))


def trace_cfg(c, p):
    return vlib.write_cfg(c, "trace_%s.cfg" % pname(p), "CONSTANTS %s TrackLast = FALSE\nSPECIFICATION TSpec\n"
                                                        "INVARIANTS TypeOK GhostOK\nCHECK_DEADLOCK FALSE\n" % sizes_consts(p))


def ref_cfg(c, p, name, nidx, iidx, spec, props, hist, last=True, fix=False):
    return vlib.write_cfg(c, name, "CONSTANTS %s FixSingle = %s TrackLast = %s TrackHist = %s NIdx = {%s} IIdx = {%s}\n"
                                   "SPECIFICATION %s\n%sINVARIANTS MTypeOK\n%sCHECK_DEADLOCK FALSE\n"
                          % (sizes_consts(p), "TRUE" if fix else "FALSE", "TRUE" if last else "FALSE", "TRUE" if hist else "FALSE",
                             ",".join(str(i) for i in nidx), ",".join(str(i) for i in iidx), spec,
                             "VIEW RView\n" if hist else "", ("PROPERTIES %s\n" % props) if props else ""))


def model_level(c):
    """design level: property model, machine vs. property model; returns the machine model's counterexample
    behaviours per partition (replayed on the real code by queue_level)"""
    quick = c.quick
    jobs = []       # (kind, partition, tlc kwargs)
    # 1. the property-level model and its listed properties
    for p in ([(2, 0, 0), (1, 1, 0)] if quick else [(2, 0, 0), (1, 1, 0), (1, 2, 0), (2, 1, 0)]):
        cfg = vlib.write_cfg(c, "mc_%s.cfg" % pname(p),
                             "CONSTANTS %s TrackLast = TRUE\nSPECIFICATION Spec\n"
                             "INVARIANTS TypeOK GhostOK DequeuePossible NotificationsContinue\n"
                             "PROPERTIES NewlyQueuedExact EachPendingDequeuedOnce PriorityOrder OneRoundFairness "
                             "AtMostOneOutstanding\n" % sizes_consts(p))
        jobs.append(("hold", p, dict(module="NotifQueue.tla", cfg=cfg, coverage=True)))
    # 2. liveness of the property-level model (fair spec, finite model, no constraint)
    for p in ([(2, 0, 0)] if quick else [(2, 0, 0), (1, 1, 0), (1, 2, 0)]):
        cfg = vlib.write_cfg(c, "live_%s.cfg" % pname(p), "CONSTANTS %s TrackLast = FALSE\nSPECIFICATION FairSpec\n"
                                                          "PROPERTIES EventuallySent\n" % sizes_consts(p))
        jobs.append(("hold", p, dict(module="NotifQueue.tla", cfg=cfg)))
    # 3. machine vs. property model where every level carries one kind only: must refine and be live
    homog = [((2, 1, 0), [2], [0, 1]), ((1, 2, 0), [1, 2], [0])]
    if not quick:
        homog += [((3, 0, 0), [], [0, 1, 2]), ((3, 0, 0), [0, 1, 2], []), ((1, 1, 2), [0, 2, 3], [1])]
    for k, (p, nidx, iidx) in enumerate(homog):
        jobs.append(("hold", p, dict(module="NotifQueueImplRef.tla",
                                     cfg=ref_cfg(c, p, "refh_%d.cfg" % k, nidx, iidx, "RFairSpec", "Refines EventuallySent", False))))
    # 4. machine as it is, all calls: the monitor names every step the property model does not allow
    for p in ([(2, 0, 0), (1, 1, 0)] if quick else [(2, 0, 0), (1, 1, 0), (1, 2, 0), (2, 1, 0), (1, 1, 1)]):
        n = sum(p)
        jobs.append(("monitor", p, dict(module="NotifQueueImplRef.tla",
                                        cfg=ref_cfg(c, p, "refm_%s.cfg" % pname(p), range(n), range(n), "RSpec", "", True))))
    # 4b. the proposed repair of the Size = 1 specialisation (it keeps both bits): no refused request any more
    jobs.append(("monitor_fix", (1, 1, 0), dict(module="NotifQueueImplRef.tla",
                                                cfg=ref_cfg(c, (1, 1, 0), "refm_fix.cfg", range(2), range(2), "RSpec", "", True, fix=True))))
    # 5. liveness of the machine as it is (C11): a lasso is expected through the fairness defects; it is bound to the
    #    code by the 'overtaken_twice' findings of the replayed traces
    if c.prop == "C11":
        jobs.append(("live_asis", (2, 0, 0), dict(module="NotifQueueImplRef.tla",
                                                  cfg=ref_cfg(c, (2, 0, 0), "refl.cfg", range(2), range(2), "RFairSpec",
                                                              "IndicationsEventuallySent", False, last=False))))
        cfg = vlib.write_cfg(c, "attmc.cfg", "CONSTANTS NC = 2\nSPECIFICATION ASpec\nINVARIANTS ATypeOK NotificationsContinue\n"
                                             "PROPERTIES AtMostOneIndicationInFlight\n")
        jobs.append(("hold", (0, 0, 0), dict(module="NotifQueueAtt.tla", cfg=cfg, coverage=True)))
    results = par_tlc([j[2] for j in jobs])
    counter, classes = {}, {}
    for (kind, p, kw), r in zip(jobs, results):
        settle(c, kw["module"][:-4], kw["cfg"], r, must_hold=(kind != "live_asis"))
        if kind == "monitor":
            best = {}
            for pr in r.prints:
                if pr and pr[0] == "FINDING":
                    cls, hist = pr[1], json.loads(pr[2])
                    classes[cls] = classes.get(cls, 0) + 1
                    if cls not in best or len(hist) < len(best[cls]):
                        best[cls] = hist
            counter[p] = list(best.values())
        if kind == "monitor_fix":
            cls = sorted(set(pr[1] for pr in r.prints if pr and pr[0] == "FINDING"))
            if any(json.loads(x)[0] == "queue" for x in cls):
                raise vlib.ToolFailure("model of the repaired Size = 1 specialisation still refuses requests: %s" % cls)
            c.extra["model_repaired_single_entry_level_classes"] = cls
        if kind == "live_asis":
            c.extra["machine_liveness_as_is"] = "violated (lasso found)" if r.violated else "holds"
            c.note("machine as-is, fair spec, IndicationsEventuallySent on %s: %s" % (pname(p), c.extra["machine_liveness_as_is"]))
    c.extra["model_predicted_finding_classes"] = {k: v for k, v in sorted(classes.items())}
    c.note("machine model as-is: %d classes of steps the property model does not allow (a shortest history of each is "
           "replayed on the real code)" % len(classes))
    return counter


def run(c):
    c.assumptions += ["single context: calls do not overlap (interrupt interleavings are C13)",
                      "index < Size for every call (documented precondition)",
                      "one-round fairness is read as: while a request is pending and could be handed out, no other request "
                      "of its priority level is handed out twice",
                      "liveness: weak fairness on 'dequeue' and on the arrival of the awaited confirmation; a request may wait "
                      "while a higher priority level has something to send"]
    att_exe = None
    if c.prop == "C11" and not c.replay:
        exe, att_exe = vlib.build_many(c, [dict(name="notifq", sources=["notifq/notifq_harness.cpp"]),
                                          dict(name="notifq_att", sources=["notifq/notifq_att_harness.cpp"])])
    else:
        exe = vlib.build(c, "notifq", ["notifq/notifq_harness.cpp"])
    if c.replay:
        return replay(c, exe)
    # VERIF_NOTIFQ_SKIP_MODEL=1 (development only, e.g. for source mutants): skip the design level runs, which do
    # not depend on the code; the evidence then says so
    if os.environ.get("VERIF_NOTIFQ_SKIP_MODEL"):
        c.note("design level model checking SKIPPED (VERIF_NOTIFQ_SKIP_MODEL)")
        counter = {}
    else:
        counter = model_level(c)
    queue_level(c, exe, counter)
    if c.prop == "C11":
        att_level(c, att_exe)


def queue_level(c, exe, counter):
    global SMALL, BIG
    only = os.environ.get("VERIF_NOTIFQ_ONLY")          # development only: restrict the partitions (e.g. "2_0_0,1_2_0,5_0_0")
    if only:
        SMALL = [p for p in SMALL if pname(p) in only.split(",")]
        BIG = [p for p in BIG if pname(p) in only.split(",")]
        counter = {p: b for p, b in counter.items() if p in SMALL}
        c.note("partitions RESTRICTED by VERIF_NOTIFQ_ONLY=%s" % only)
    rng = random.Random(c.seed)
    quick = c.quick
    cap = 300
    per_part = {}
    graph = {}
    # a. every edge of the machine graph, b. random deep walks (both profiles; also the big partitions)
    nwalk, depth = (24, 120) if quick else (400, 200)
    jobs = []
    edge_parts = [q for q in SMALL if sum(q) <= 3] if quick else SMALL      # quick: 7 partitions of <= 3 entries
    for p in edge_parts:
        jobs.append(("edges", p, False, dict(module="NotifQueueImplGen.tla", cfg=gen_cfg(c, p, "edges", 0, False, "edges_%s.cfg" % pname(p)))))
    for p in ([q for q in SMALL if sum(q) == 4] if quick else SMALL) + BIG:       # quick: <= 3 entries by edges only, 4 by walks
        nw = nwalk * 3 if p in BIG else nwalk
        for nomix in ([False, True] if has_single(p) else [False]):
            jobs.append(("walks", p, nomix, dict(module="NotifQueueImplGen.tla",
                                                 cfg=gen_cfg(c, p, "walks", depth, nomix, "walks_%s_%d.cfg" % (pname(p), nomix)),
                                                 simulate=max(1, nw // 2), depth=depth + 1, seed=c.seed)))
    results = par_tlc([j[3] for j in jobs])
    for (kind, p, nomix, kw), r in zip(jobs, results):
        if r.violated or r.error:
            raise vlib.ToolFailure("generator failed for %s: %s %s\n%s" % (kw["cfg"], r.violated, r.error, r.out[-2000:]))
        per_part.setdefault(p, [])
        if kind == "edges":
            if not r.completed:
                raise vlib.ToolFailure("edge generator did not complete for %s" % kw["cfg"])
            c.add_model_run("NotifQueueImplGen", os.path.basename(kw["cfg"]), r)
            walks, n_states, n_edges = covering_walks(r.prints, cap, rng)
            graph[pname(p)] = {"states": n_states, "edges": n_edges, "walks": len(walks), "calls": sum(len(w) for w in walks)}
            per_part[p] += [("edge", w) for w in walks]
        else:
            behs = vlib.behaviours(r)
            if not behs:
                raise vlib.ToolFailure("walk generator produced nothing for %s\n%s" % (kw["cfg"], r.out[-2000:]))
            per_part[p] += [("walk_nomix" if nomix else "walk", b) for b in behs]
    c.extra["machine_graph_edge_cover"] = graph
    c.exhaustive = not only
    # c. the machine model's counterexamples
    for p, behs in counter.items():
        per_part.setdefault(p, [])
        per_part[p] += [("model_cex", b) for b in behs]
    # replay everything on the real class; the partition is a constant of the trace spec -> one trace set per partition
    jobs = []
    for p, behs in per_part.items():
        total = sum(len(b) + 4 for _, b in behs)
        for k, part in enumerate(vlib.chunks(behs, max(1, min(16, total // 15000)))):
            lines = []
            for kind, b in part:
                lines += script_of(p, b)
            sp = vlib.write_lines(os.path.join(c.build_dir, "s_%s_%d.txt" % (pname(p), k)), lines)
            tp = os.path.join(c.build_dir, "t_%s_%d.ndjson" % (pname(p), k))
            rc, out = vlib.run_harness(exe, [sp, tp])
            if rc != 0:
                raise vlib.ToolFailure("harness failed rc=%d: %s" % (rc, out[-2000:]))
            jobs.append((p, tp))
    p0 = (1, 2, 0) if (1, 2, 0) in per_part else sorted(per_part)[0]
    c.sample({"partition": list(p0), "behaviour": per_part[p0][0][1][:40]})
    by_action = {}
    jobs.sort(key=lambda j: -os.path.getsize(j[1]))          # biggest traces first
    verdicts = validate_many(c, "NotifQueueTrace.tla", [(trace_cfg(c, p), tp) for p, tp in jobs])
    for (p, tp), v in zip(jobs, verdicts):
        execs = vlib.split_executions(tp)
        c.add_traces(len(execs), v.events)
        for _, evs in execs:
            for ev in evs:
                by_action[ev["e"]] = by_action.get(ev["e"], 0) + 1
        report(c, p, execs, v.mismatch_lines, parse_why(v.out))
    c.extra["events_by_action"] = by_action
    for a in ("Reset", "qn", "qi", "dq", "cf", "cl", "Drained"):
        if not by_action.get(a):
            raise vlib.ToolFailure("vacuous: no '%s' event in the validated traces" % a)
    c.sample({"partition": list(jobs[-1][0]), "trace": vlib.split_executions(jobs[-1][1])[0][1][:30]})


def validate_many(c, module, jobs):
    """jobs: list of (cfg, trace path) -> list of TraceVerdict (one TLC each, run concurrently)"""
    from concurrent.futures import ThreadPoolExecutor
    with ThreadPoolExecutor(max(1, min(len(jobs), 2 * n_parallel()))) as ex:
        return list(ex.map(lambda j: vlib.validate_trace(MOD, module, j[0], j[1]), jobs))


def report(c, p, execs, mismatch_lines, why):
    for ln in mismatch_lines:
        first, evs = [e for e in execs if e[0] <= ln][-1]
        ev = evs[ln - first]
        for sig, props in signatures(why.get(ln)):
            if c.prop not in props:
                other = c.extra.setdefault("mismatches_judged_by_the_other_property", {})
                other[sig] = other.get(sig, 0) + 1
                continue
            c.finding("queue:%s" % sig,
                      "notification_queue<%s>: call %s is not a step of the property model (%s)" % (pname(p), ev, why.get(ln)),
                      {"level": "queue", "sizes": list(p), "ops": ops_of_events(evs[:ln - first + 1])})


def replay(c, exe):
    case = json.load(open(c.replay))["case"]
    if case.get("level") == "att":
        return att_replay(c, case)
    p = tuple(case["sizes"])
    sp = vlib.write_lines(os.path.join(c.build_dir, "replay.txt"), case["ops"])
    tp = os.path.join(c.build_dir, "replay.ndjson")
    rc, out = vlib.run_harness(exe, [sp, tp])
    if rc != 0:
        raise vlib.ToolFailure("harness failed rc=%d: %s" % (rc, out[-2000:]))
    v = vlib.validate_trace(MOD, "NotifQueueTrace.tla", trace_cfg(c, p), tp)
    execs = vlib.split_executions(tp)
    c.add_traces(len(execs), v.events)
    c.sample(execs[0][1][:60])
    report(c, p, execs, v.mismatch_lines, parse_why(v.out))


# ------------------------------------------------------------------------------------------------------------------
# C11 at ATT level: real bluetoe::server + connection, PDUs 0x1B / 0x1D / 0x1E
# ------------------------------------------------------------------------------------------------------------------
SERVERS = {3: {"CanN": [0, 2], "CanI": [0, 1]}, 1: {"CanN": [0], "CanI": [0]}}


def att_gen_cfg(c, nc, d, name, resub=0, fixed=None, avoid=False):
    s = SERVERS[nc]
    f = list(fixed or [0, 0, 0])
    return vlib.write_cfg(c, name, "CONSTANTS NC = %d CanN = {%s} CanI = {%s} D = %d MaxResub = %d FixedSub = %s F0 = %d F1 = %d F2 = %d "
                                   "AvoidUnsubInd = %s\nSPECIFICATION GSpec\nINVARIANTS Emit\nCHECK_DEADLOCK FALSE\n"
                          % (nc, ",".join(map(str, s["CanN"])), ",".join(map(str, s["CanI"])), d, resub,
                             "TRUE" if fixed else "FALSE", f[0], f[1], f[2], "TRUE" if avoid else "FALSE"))


def att_trace_cfg(c, nc):
    return vlib.write_cfg(c, "atrace_%d.cfg" % nc, "CONSTANTS NC = %d\nSPECIFICATION TSpec\nINVARIANTS ATypeOK\nCHECK_DEADLOCK FALSE\n" % nc)


def att_script(nc, behaviour, drain=True):
    return ["reset %d" % nc] + [" ".join(str(x) for x in op) for op in behaviour] + (["drain"] if drain else [])


def att_ops_of_events(evs):
    ops = []
    for ev in evs:
        e = ev["e"]
        if e == "Reset":
            ops.append("reset %d" % ev["nc"])
        elif e == "sub":
            ops.append("sub %d %d" % (ev["c"], ev["f"]))
        elif e in ("notify", "indicate", "read"):
            ops.append("%s %d" % (e, ev["c"]))
        elif e == "poll":
            ops.append("poll")
        elif e == "confirm":
            ops.append("confirm %d" % ev["len"])
        elif e == "Drained":
            ops.append("mark")
    return ops


def att_signature(why):
    if not why:
        return "att:unclassified"
    return "att:" + ":".join(("kinds=" + "+".join(sorted(x))) if isinstance(x, list) else str(x) for x in why)


def att_report(c, nc, execs, mismatch_lines, why):
    for ln in mismatch_lines:
        first, evs = [e for e in execs if e[0] <= ln][-1]
        ev = evs[ln - first]
        c.finding(att_signature(why.get(ln)),
                  "server with %d characteristic(s): %s is not a step of the ATT level model (%s)" % (nc, ev, why.get(ln)),
                  {"level": "att", "nc": nc, "ops": att_ops_of_events(evs[:ln - first + 1])})


def att_level(c, exe):
    quick = c.quick
    jobs = []
    # all call sequences of depth D: the single characteristic server from every CCCD value; the three characteristic
    # server from the corner subscription {0: both, 1: none, 2: notifications} (and from every CCCD vector in thorough)
    jobs.append((1, dict(module="NotifQueueAttGen.tla", cfg=att_gen_cfg(c, 1, 3 if quick else 4, "agen_1.cfg"))))
    jobs.append((3, dict(module="NotifQueueAttGen.tla", cfg=att_gen_cfg(c, 3, 4, "agen_3f.cfg", fixed=[3, 0, 1]))))
    if not quick:
        jobs.append((3, dict(module="NotifQueueAttGen.tla", cfg=att_gen_cfg(c, 3, 3, "agen_3.cfg"))))
    nw, depth = (150, 30) if quick else (1500, 50)
    for nc in (3, 1):
        for avoid in (False, True):
            jobs.append((nc, dict(module="NotifQueueAttGen.tla",
                                  cfg=att_gen_cfg(c, nc, depth, "awalk_%d_%d.cfg" % (nc, avoid), resub=3, avoid=avoid),
                                  simulate=max(1, nw // 2), depth=depth + nc + 1, seed=c.seed)))
    results = par_tlc([j[1] for j in jobs])
    behs = {3: [], 1: []}
    for (nc, kw), r in zip(jobs, results):
        if r.violated or r.error:
            raise vlib.ToolFailure("ATT generator failed for %s: %s %s\n%s" % (kw["cfg"], r.violated, r.error, r.out[-2000:]))
        b = vlib.behaviours(r)
        if not b:
            raise vlib.ToolFailure("ATT generator produced nothing for %s" % kw["cfg"])
        if "simulate" not in kw:
            c.add_model_run("NotifQueueAttGen", os.path.basename(kw["cfg"]), r)
        behs[nc] += b
    c.sample({"att_server": 3, "behaviour": behs[3][len(behs[3]) // 2]})
    tjobs = []
    for nc, bl in behs.items():
        total = sum(len(b) + 6 for b in bl)
        for k, part in enumerate(vlib.chunks(bl, max(1, min(8, total // 15000)))):
            sp = vlib.write_lines(os.path.join(c.build_dir, "as_%d_%d.txt" % (nc, k)), [l for b in part for l in att_script(nc, b)])
            tp = os.path.join(c.build_dir, "at_%d_%d.ndjson" % (nc, k))
            rc, out = vlib.run_harness(exe, [sp, tp])
            if rc != 0:
                raise vlib.ToolFailure("ATT harness failed rc=%d: %s" % (rc, out[-2000:]))
            tjobs.append((nc, tp))
    verdicts = validate_many(c, "NotifQueueAttTrace.tla", [(att_trace_cfg(c, nc), tp) for nc, tp in tjobs])
    by_action = c.extra.setdefault("att_events_by_action", {})
    pdus = c.extra.setdefault("att_pdus", {})
    for (nc, tp), v in zip(tjobs, verdicts):
        execs = vlib.split_executions(tp)
        c.add_traces(len(execs), v.events)
        for _, evs in execs:
            for ev in evs:
                by_action[ev["e"]] = by_action.get(ev["e"], 0) + 1
                if ev["e"] == "poll":
                    pdus[str(ev["op"])] = pdus.get(str(ev["op"]), 0) + 1
                if ev["e"] == "confirm":
                    k = "confirm_len_%d" % ev["len"]
                    pdus[k] = pdus.get(k, 0) + 1
        att_report(c, nc, execs, v.mismatch_lines, parse_why(v.out))
    for a in ("sub", "notify", "indicate", "poll", "confirm", "read", "Drained"):
        if not by_action.get(a):
            raise vlib.ToolFailure("vacuous: no '%s' event in the ATT level traces" % a)
    for k in ("27", "29", "0", "confirm_len_1", "confirm_len_2", "confirm_len_3"):
        if not pdus.get(k):
            raise vlib.ToolFailure("vacuous: no %s in the ATT level traces" % k)
    c.sample({"att_server": tjobs[0][0], "trace": vlib.split_executions(tjobs[0][1])[0][1][:25]})


def att_replay(c, case):
    exe = vlib.build(c, "notifq_att", ["notifq/notifq_att_harness.cpp"])
    nc = case["nc"]
    sp = vlib.write_lines(os.path.join(c.build_dir, "areplay.txt"), case["ops"])
    tp = os.path.join(c.build_dir, "areplay.ndjson")
    rc, out = vlib.run_harness(exe, [sp, tp])
    if rc != 0:
        raise vlib.ToolFailure("ATT harness failed rc=%d: %s" % (rc, out[-2000:]))
    v = vlib.validate_trace(MOD, "NotifQueueAttTrace.tla", att_trace_cfg(c, nc), tp)
    execs = vlib.split_executions(tp)
    c.add_traces(len(execs), v.events)
    c.sample(execs[0][1][:60])
    att_report(c, nc, execs, v.mismatch_lines, parse_why(v.out))
