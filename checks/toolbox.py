"""C37 / C38 - nRF52 security tool box (bluetoe/bindings/nordic/nrf52/security_tool_box.cpp).

spec/Toolbox/Toolbox.tla        c1, s1, f4, f5, f6, g2, AES-CMAC, LL session key as the Core specification writes
                                them, over octet strings and an UNINTERPRETED block cipher E; P-256 point validity as
                                a certificate-checked integer identity; the passkey range; published sample layouts
spec/Toolbox/ToolboxGen.tla     the input family (TLC enumerates every call, checks the definitions with a toy cipher)
spec/Toolbox/PasskeyGen.tla     implementation shaped passkey generators (as coded / rejection sampling) vs. Toolbox
spec/Toolbox/ToolboxTrace.tla   trace validation: E := the block encryptions the call made the ECB hardware perform
harness/toolbox                 the real security_tool_box.cpp built for the host against harness/stubs/nrf.h
"""
import json
import os
import random
import subprocess
import time
from concurrent.futures import ThreadPoolExecutor

import vlib

PROPS = ["C37", "C38"]
META = {
    "C37": {
        "text": "Toolbox.tla defines c1, s1, f4, f5, f6, g2, AES-CMAC and the LL session key exactly as the Core "
                "specification does, over an uninterpreted block cipher. The real nrf52 security_tool_box.cpp is built "
                "for the host against an emulated RNG/ECB register file; TLC enumerates a structured input family "
                "(all-zero, all-0xFF, one-hot at every octet of every operand, address types, IO capability triples, "
                "pseudo random operands, the published sample data) and validates every recorded call: the result must "
                "equal the specified function of the arguments where E is the set of block encryptions the code made the "
                "ECB perform. is_valid_public_key is validated against a TLA+ curve-equation predicate decided from an "
                "untrusted division certificate.",
        "note": "reduced claim (DESIGN 5.9/6): decides octet order, operand layout, padding, sub-key derivation, XOR/"
                "chaining structure on the sampled inputs; NOT decided: the AES core (hardware on the target, tiny-AES in "
                "the stub), P-256 arithmetic of uECC beyond the sampled points, unsampled inputs; the session key is bound "
                "through nrf52_details::aes_le with the two write_64bit lines of nrf52.cpp replicated in the harness "
                "(nrf52.cpp needs the whole radio register set). Trusted: TLC, harness/stubs/nrf.h peripheral model, g++.",
        "technique": "TLA+ reference definitions over an uninterpreted cipher + TLC-enumerated inputs replayed on the real "
                     "code + TLC trace validation",
        "design_ref": "5.9"},
    "C38": {
        "text": "Toolbox.tla: the passkey generator hands out a TK that is a number 0..999999 (CreatePasskey). PasskeyGen.tla "
                "model checks two generator designs for every octet stream over a boundary alphabet (rejection sampling "
                "holds; 'first three RNG octets verbatim' is refuted). The real create_passkey() is called with scripted "
                "RNG octet streams enumerated by TLC (all-zero, all-0xFF, values around 999999 / 1000000 / 2^20 / 2^24, "
                "rejected-then-accepted streams, pseudo random ones, a grid in the thorough tier) and every result is "
                "validated by TLC against CreatePasskey.",
        "note": "decided: the range of the generated/displayed value; NOT decided: uniformity (a statistical statement). "
                "Assumes the RNG stream continues after the scripted prefix (a rejection sampler needs that). Trusted: TLC, "
                "the RNG model of harness/stubs/nrf.h.",
        "technique": "TLA+ model checking (TLC) of generator designs + scripted RNG streams on the real code + TLC trace validation",
        "design_ref": "5.9"},
}

NORDIC = vlib.REPO + "/bluetoe/bindings/nordic"
EXTRA_INC = ["-I" + vlib.HARNESS + "/stubs", "-I" + NORDIC + "/include", "-I" + NORDIC + "/nrf52/include", "-I" + NORDIC + "/uECC"]
NOT_DECIDED_C37 = ["the AES-128 core (silicon on the target; tests/test_tools/aes.c in the emulated ECB, only pinned by the "
                   "FIPS-197 / RFC 4493 / Core sample values)",
                   "P-256 arithmetic of uECC beyond the sampled points (the verdict per sampled point IS decided by the "
                   "certificate-checked curve equation in Toolbox.tla)",
                   "inputs outside the enumerated family: layout mistakes are reached through the one-hot families, "
                   "value dependent bugs are not",
                   "the two write_64bit lines composing SKD in nrf52.cpp setup_encryption (replicated in the harness)"]

P256_P = 0xFFFFFFFF00000001000000000000000000000000FFFFFFFFFFFFFFFFFFFFFFFF
P256_B = 0x5AC635D8AA3A93E7B3EBBD55769886BC651D06B0CC53B0F63BCE3C3E27D2604B
VK_CLASSES = {1: "on-curve", 2: "off-curve", 3: "x>=p", 4: "y>=p", 5: "zero-point", 6: "published-point", 7: "on-curve-edge",
              8: "x>=p-congruent-to-curve-point"}


# ------------------------------------------------------------------------------------------
# build: objects in parallel (the tool box TU and the harness TU take most of the time)
# ------------------------------------------------------------------------------------------
def build_harness(c):
    common = ["-O1", "-g", "-DNDEBUG", "-D" + vlib.GUARD, "-fno-omit-frame-pointer", "-w",
              "-fsanitize=address,undefined", "-fno-sanitize-recover=undefined"]
    jobs = [
        ("aes.o", ["gcc"] + common + ["-c", vlib.REPO + "/tests/test_tools/aes.c"]),
        ("uecc.o", ["gcc"] + common + ["-DuECC_CURVE=uECC_secp256r1", "-c", NORDIC + "/uECC/uECC.c"]),
        ("stb.o", ["g++", "-std=c++11"] + common + vlib.INCLUDES + EXTRA_INC +
         ["-fpermissive", "-c", NORDIC + "/nrf52/security_tool_box.cpp"]),
        ("addr.o", ["g++", "-std=c++11"] + common + vlib.INCLUDES + ["-c", vlib.REPO + "/bluetoe/utility/address.cpp"]),
    ]

    def one(j):
        out = os.path.join(c.build_dir, j[0])
        p = subprocess.run(["timeout", "600"] + j[1] + ["-o", out], stdout=subprocess.PIPE, stderr=subprocess.STDOUT,
                           universal_newlines=True, errors="replace")
        if p.returncode != 0:
            raise vlib.ToolFailure("host build of the nRF52 tool box failed (%s):\n%s\n%s" % (j[0], " ".join(j[1]), p.stdout[-5000:]))
        return out

    with ThreadPoolExecutor(4) as ex:
        f_objs = ex.submit(lambda: [one(j) for j in jobs[:2]] )
        f_stb = ex.submit(one, jobs[2])
        f_addr = ex.submit(one, jobs[3])
        f_main = ex.submit(lambda: vlib.build(c, "toolbox_main.o", ["toolbox/toolbox_harness.cpp"], includes=EXTRA_INC, flags=["-c"]))
        objs = f_objs.result() + [f_stb.result(), f_addr.result(), f_main.result()]
    # link: -no-pie keeps static storage below 4 GiB (ECBDATAPTR is a 32 bit register)
    exe = os.path.join(c.build_dir, "toolbox_harness")
    p = subprocess.run(["g++", "-fsanitize=address,undefined", "-no-pie", "-pthread", "-o", exe] + objs,
                       stdout=subprocess.PIPE, stderr=subprocess.STDOUT, universal_newlines=True)
    if p.returncode != 0:
        raise vlib.ToolFailure("link of the tool box harness failed:\n" + p.stdout[-3000:])
    return exe


# ------------------------------------------------------------------------------------------
# public key inputs (plain enumeration in python, see `rule` in the evidence): points + division certificates
# ------------------------------------------------------------------------------------------
def le(n, size):
    return [(n >> (8 * i)) & 0xFF for i in range(size)]


def conv(a, b):
    out = [0] * (len(a) + len(b) - 1)
    for i, ai in enumerate(a):
        for j, bj in enumerate(b):
            out[i + j] += ai * bj
    return out


def addc(a, b):
    return [(a[i] if i < len(a) else 0) + (b[i] if i < len(b) else 0) for i in range(max(len(a), len(b)))]


def carries(L, R):
    n = max(len(L), len(R))
    c = [0]
    for i in range(n):
        d = (L[i] if i < len(L) else 0) - (R[i] if i < len(R) else 0) + c[-1]
        c.append(d // 256)          # exact whenever the two sides denote the same number
    return c


def certificate(x, y):
    """untrusted hint for Toolbox!CertOK: y^2 + 3x = ql p + rl, x x = x2, x2 x + b = qr p + rr, with carry chains"""
    ql, rl = divmod(y * y + 3 * x, P256_P)
    qr, rr = divmod(x * x * x + P256_B, P256_P)
    X, Y, P, B = le(x, 32), le(y, 32), le(P256_P, 32), le(P256_B, 32)
    QL, RL, QR, RR, X2 = le(ql, 33), le(rl, 32), le(qr, 65), le(rr, 32), le(x * x, 64)
    ca = carries(addc(conv(Y, Y), [3 * d for d in X]), addc(conv(QL, P), RL))
    cb = carries(conv(X, X), X2)
    cc = carries(addc(conv(X2, X), B), addc(conv(QR, P), RR))
    return QL + RL + QR + RR + X2 + ca + cb + cc


def lift_x(x):
    rhs = (pow(x, 3, P256_P) - 3 * x + P256_B) % P256_P
    y = pow(rhs, (P256_P + 1) // 4, P256_P)
    return y if (y * y) % P256_P == rhs else None


def key_points(seed, n_random):
    rnd = random.Random(seed)
    pts = []          # (cls, x, y, expect or None)
    G = (0x6B17D1F2E12C4247F8BCE6E563A440F277037D812DEB33A0F4A13945D898C296,
         0x4FE342E2FE1A7F9B8EE7EB4A7C0F9E162BCE33576B315ECECBB6406837BF51F5)
    A = (0x20B003D2F297BE2C5E2C83A7E9F9A5B9EFF49111ACF4FDDBCC0301480E359DE6,
         0xDC809C49652AEB6D63329ABF5A52155C766345C28FED3024741C8ED01589D28B)
    pts += [(6, G[0], G[1], 1), (6, A[0], A[1], 1)]
    on = []
    while len(on) < n_random:
        x = rnd.getrandbits(256) % P256_P
        y = lift_x(x)
        if y is not None:
            on.append((x, rnd.choice([y, P256_P - y])))
    pts += [(1, x, y, None) for x, y in on]
    # edges of the field: smallest / largest x that are on the curve
    small = [x for x in range(0, 40) if lift_x(x) is not None][:4]
    large = [x for x in range(P256_P - 1, P256_P - 40, -1) if lift_x(x) is not None][:3]
    for x in small + large:
        y = lift_x(x)
        pts += [(7, x, y, None), (7, x, P256_P - y, None)]
    # off the curve: neighbours and single bit flips of curve points
    for i, (x, y) in enumerate(on[:max(4, n_random // 2)]):
        pts.append((2, x, (y + 1) % P256_P, None))
        pts.append((2, (x + 1) % P256_P, y, None))
        bx, by = x ^ (1 << rnd.randrange(255)), y ^ (1 << rnd.randrange(255))
        if bx < P256_P:
            pts.append((2, bx, y, None))
        if by < P256_P:
            pts.append((2, x, by, None))
        pts.append((2, y, x, None))                      # coordinates swapped
    pts.append((2, G[0], G[0], None))
    # coordinates that are not field elements
    for x in (P256_P, P256_P + 1, (1 << 256) - 1):
        pts.append((3, x, on[0][1], None))
    for y in (P256_P, P256_P + 1, (1 << 256) - 1):
        pts.append((4, on[0][0], y, None))
    # x = x0 + p for curve points with tiny x0: satisfies the curve equation modulo p, still not a valid encoding
    for x0 in small:
        if x0 + P256_P < (1 << 256):
            pts.append((8, x0 + P256_P, lift_x(x0), None))
    pts.append((5, 0, 0, None))
    pts.append((2, 0, 1, None))
    pts.append((2, 1, 0, None))
    return pts


# ------------------------------------------------------------------------------------------
# scripts / traces
# ------------------------------------------------------------------------------------------
def call_line(call):
    return call["f"] + " " + " ".join(str(b) for b in call["a"])


def call_class(call):
    t = call["tag"]
    return "vk:" + VK_CLASSES.get(t[1], "?") if t[0] == "vk" else str(t[0])


def make_script(calls):
    """-> (lines, meta): meta[i] describes the event that line i produces (None for lines without an event)"""
    lines, meta = ["reset"], [{"f": "Reset"}]
    for call in calls:
        if "expect" in call:
            lines.append("expect " + " ".join(str(b) for b in call["expect"]))
            meta.append(None)
        lines.append(call_line(call))
        meta.append({"f": call["f"], "cls": call_class(call), "tag": call["tag"]})
    return lines, meta


def run_and_validate(c, exe, chunks, name):
    """chunks: list of (lines, meta). Runs the harness (restarting after a crash), validates every trace with TLC.
    -> list of (meta_of_event, event, diag or None) for every produced event"""
    traces, metas = [], []
    for i, (lines, meta) in enumerate(chunks):
        part = 0
        while lines:
            sp = os.path.join(c.build_dir, "%s_%d_%d.txt" % (name, i, part))
            tp = os.path.join(c.build_dir, "%s_%d_%d.ndjson" % (name, i, part))
            vlib.write_lines(sp, lines)
            rc, out = vlib.run_harness(exe, [sp, tp])
            if rc != 0:
                raise vlib.ToolFailure("tool box harness failed rc=%d: %s" % (rc, out[-2000:]))
            evs = vlib.read_ndjson(tp)
            ev_meta = [m for m in meta if m is not None]
            traces.append(tp)
            if evs and evs[-1].get("e") == "Crash":
                # the call that crashed produced the Crash event; continue with the lines behind it
                n_done = len(evs)                      # events incl. the Crash event <-> lines with an event
                metas.append(ev_meta[:n_done])
                idx = [k for k, m in enumerate(meta) if m is not None][n_done - 1]
                lines, meta = ["reset"] + lines[idx + 1:], [{"f": "Reset"}] + meta[idx + 1:]
                if len(lines) == 1:
                    lines = []
                part += 1
                continue
            if len(evs) != len(ev_meta):
                raise vlib.ToolFailure("harness wrote %d events for %d calls (%s)" % (len(evs), len(ev_meta), tp))
            metas.append(ev_meta)
            lines = []
    # binding self test: corrupted copies of recorded events (one field changed) must all be rejected by the oracle
    st_path, st_expected = write_selftest(c, [e for tp in traces for e in vlib.read_ndjson(tp)], name)
    cfg = os.path.join(vlib.SPEC, "Toolbox", "Trace.cfg")
    # a generous thread stack: the interpreter recurses once per block of the CMAC chain / per digit of a product
    verdicts = vlib.validate_parallel("Toolbox", "ToolboxTrace.tla", cfg, traces + ([st_path] if st_path else []),
                                      timeout=1500, heap="4g -Xss128m")
    if st_path:
        v = verdicts.pop(st_path)
        missed = sorted(set(st_expected) - set(v.mismatch_lines))
        c.extra.setdefault("selftest_corrupted_events", {"rejected": 0, "of": 0})
        c.extra["selftest_corrupted_events"]["of"] += len(st_expected)
        c.extra["selftest_corrupted_events"]["rejected"] += len(st_expected) - len(missed)
        if missed:
            evs = vlib.read_ndjson(st_path)
            raise vlib.ToolFailure("oracle self test: corrupted events were ACCEPTED by ToolboxTrace.tla (vacuous oracle): %s"
                                   % [json.dumps({k: x for k, x in evs[i - 1].items() if k not in ("ecb", "cert")})[:300] for i in missed[:3]])
    res = []
    for tp, ev_meta in zip(traces, metas):
        v = verdicts[tp]
        evs = vlib.read_ndjson(tp)
        diags = {}
        for line in v.out.splitlines():
            line = line.strip()
            if line.startswith('<<"DIAG"'):
                t = vlib.parse_tla_value(line)
                if t:
                    diags[int(t[1])] = t[2]
        c.add_traces(sum(1 for e in evs if e.get("e") != "Reset"), v.events)    # every call is one execution of a pure function
        bad = set(v.mismatch_lines)
        for k, ev in enumerate(evs, 1):
            res.append((ev_meta[k - 1], ev, (diags.get(k, "unexplained-event") if k in bad else None)))
    return res


def write_selftest(c, events, name):
    """corrupt the first recorded event of every kind in several ways -> (trace path, line numbers that must mismatch)"""
    import copy
    out, expected, seen = [{"e": "Reset"}], [], set()

    def add(ev):
        out.append(ev)
        expected.append(len(out))

    for ev in events:
        kind = ev.get("e")
        if kind in seen or kind in ("Reset", "Crash"):
            continue
        if kind == "create_passkey" and (ev["shown_lo"] > 999999 or ev["shown_hi"] != 0):
            continue                                   # take an in-range one
        if kind == "vk" and not ev["res"] and "vk_false" not in seen:
            seen.add("vk_false")
            x = copy.deepcopy(ev); x["res"] = True; x.pop("expect", None); add(x)        # invalid key reported as valid
            continue
        if kind == "vk" and not ev["res"]:
            continue
        seen.add(kind)
        if kind == "vk":
            x = copy.deepcopy(ev); x["res"] = False; x.pop("expect", None); add(x)       # valid key reported as invalid
        elif kind == "create_passkey":
            x = copy.deepcopy(ev); x["res"][3] = 1; add(x)                               # upper octet set
            x = copy.deepcopy(ev); x["res"][0:3] = [64, 66, 15]; x["shown_lo"] = 1000000; add(x)   # 1000000
            x = copy.deepcopy(ev); x["shown_lo"] = (ev["shown_lo"] + 1) % 1000000; add(x) # displayed value differs
        else:
            rk = "mackey" if kind == "f5" else "res"
            x = copy.deepcopy(ev); x.pop("expect", None); x[rk][0] ^= 1; add(x)           # result octet changed
            x = copy.deepcopy(ev); x.pop("expect", None); x[rk] = list(reversed(x[rk])); add(x)   # result in the other octet order
            x = copy.deepcopy(ev); x.pop("expect", None); x["ecb"] = x["ecb"][:-1]; add(x) # last block encryption not performed
            ak = [k for k in ev if isinstance(ev[k], list) and k not in ("res", "mackey", "ltk", "ecb", "expect")][0]
            x = copy.deepcopy(ev); x.pop("expect", None); x[ak][-1] ^= 128; add(x)        # argument changed, result kept
            if kind == "f5":
                x = copy.deepcopy(ev); x.pop("expect", None); x["ltk"], x["mackey"] = x["mackey"], x["ltk"]; add(x)   # pair swapped
    if not expected:
        return None, []
    path = os.path.join(c.build_dir, "%s_selftest.ndjson" % name)
    vlib.write_lines(path, out)
    return path, expected


def raw24(ev):
    r = ev.get("rng", [])
    return r[0] + 256 * r[1] + 65536 * r[2] if len(r) >= 3 else -1


def passkey_scope(results):
    """argument class for the signature of an out-of-range passkey: does EVERY stream of this run whose first three
    octets exceed 999999 come back verbatim (the generator has no range handling at all), or only some of them
    (a generator that handles the range, but wrongly)?"""
    above = [(ev, d) for m, ev, d in results if ev["e"] == "create_passkey" and raw24(ev) > 999999]
    verbatim = [1 for ev, d in above if d and d.startswith("out-of-range:first-3-rng-octets-verbatim") and len(ev["rng"]) == 3]
    return "every-stream-above-999999" if above and len(verbatim) == len(above) else "only-some-streams"


def report(c, results, lines_of):
    """turn unexplained events into findings; count events"""
    counts = {}
    scope = passkey_scope(results)
    for meta, ev, diag in results:
        counts[ev["e"]] = counts.get(ev["e"], 0) + 1
        if diag is None:
            continue
        if ev["e"] == "Crash":
            sig = "%s:crash:%s" % (meta["f"], meta.get("cls", ""))
            diag = "crash"
        elif ev["e"] == "create_passkey":
            sig = "create_passkey:" + diag
            if diag.startswith("out-of-range:"):
                kind, size = diag.rsplit(":", 1)
                sig = "create_passkey:%s:%s" % (kind, scope) + ("" if scope.startswith("every") else ":" + size)
        else:
            sig = "%s:%s:%s" % (ev["e"], diag, meta.get("cls", ""))
        if diag in ("bad-certificate", "malformed-event", "ecb-log-not-a-function"):
            raise vlib.ToolFailure("harness / glue produced an event the specification cannot judge (%s): %s" % (diag, json.dumps(ev)[:600]))
        short = {k: v for k, v in ev.items() if k not in ("ecb", "cert")}
        c.finding(sig, "nRF52 tool box call not explained by Toolbox.tla (%s): %s" % (diag, json.dumps(short)[:700]),
                  {"prop": c.prop, "lines": lines_of(meta), "meta": [meta]})
    return counts


# ------------------------------------------------------------------------------------------
def gen_cfg(c, which):
    q = c.quick
    if which == "pure":
        consts = "NRnd = %d  HotVals = %s  RHot = %s  Seed = %d  NPassRnd = 0  PassGrid = FALSE  Which = \"pure\"" % (
            4 if q else 24, "{1}" if q else "{1, 128, 255}", "FALSE" if q else "TRUE", c.seed % 1000 + 1)
    else:
        consts = "NRnd = 0  HotVals = {1}  RHot = FALSE  Seed = %d  NPassRnd = %d  PassGrid = %s  Which = \"passkey\"" % (
            c.seed % 1000 + 1, 60 if q else 1500, "FALSE" if q else "TRUE")
    return vlib.write_cfg(c, "gen_%s.cfg" % which, "CONSTANTS " + consts + "\nSPECIFICATION GSpec\n"
                          "INVARIANTS Emit WellFormed Sensitive PassShape TypeOK PasskeySixDigits\nCHECK_DEADLOCK FALSE\n")


def lines_for(meta_to_lines):
    return lambda meta: meta_to_lines.get(id(meta), [])


def context_c37(c):
    c.assumptions += [
        "every C++ argument / result is the value's octets least significant first (SMP / LL wire order); the ECB block is in FIPS-197 order",
        "E is interpreted per call as the block encryptions the call made the emulated ECB perform; AES itself is not specified",
        "the host build keeps the ECB data block in static storage (-no-pie) because ECBDATAPTR is a 32 bit register",
        "public key sample points and their division certificates are computed by the python glue; the certificate is "
        "checked by Toolbox!CertOK (a wrong certificate is a tool failure, never a verdict)"]
    c.extra["not_decided"] = NOT_DECIDED_C37
    c.extra["rule"] = ("pure function calls: enumerated by TLC from spec/Toolbox/ToolboxGen.tla (every call of the family, "
                       "exhaustive over the family); public key points: plain python enumeration (needs modular square roots) "
                       "with the verdict decided by the TLA+ curve equation")


def context_c38(c):
    c.assumptions += [
        "the RNG model of harness/stubs/nrf.h: one octet per TASKS_START, scripted prefix, then a seeded xorshift tail "
        "(the stream never ends; a rejection sampling generator needs that)",
        "passkey = the TK create_passkey() returns, least significant octet first; the displayed number is read_32bit of it "
        "(io_capabilities.hpp)"]
    c.extra["not_decided"] = ["uniformity of the generated passkey: a statistical statement about the RNG and the generator, "
                              "not a safety property of a state machine; only the range 000000..999999 is decided"]


def run(c):
    (context_c37 if c.prop == "C37" else context_c38)(c)
    with ThreadPoolExecutor(4) as ex:
        build = ex.submit(build_harness, c)           # the host build runs while TLC enumerates the inputs
        if c.replay:
            return replay(c, build.result())
        if c.prop == "C37":
            return run_c37(c, build, ex)
        return run_c38(c, build, ex)


def chunked(c, calls, n):
    """n scripts; returns chunks and a map event-meta -> script lines that reproduce the call"""
    chunks, repro = [], {}
    for part in vlib.chunks(calls, n):
        lines, meta = make_script(part)
        k = 0
        for call in part:
            ls = ["reset"] + (["expect " + " ".join(str(b) for b in call["expect"])] if "expect" in call else []) + [call_line(call)]
            # meta entries of calls follow the Reset entry in order
            while meta[k] is None or meta[k].get("f") == "Reset":
                k += 1
            repro[id(meta[k])] = ls
            k += 1
        chunks.append((lines, meta))
    return chunks, repro


def run_c37(c, build, ex):
    # 1./2. enumerate the input family with TLC; the same run checks the definitions with the toy cipher
    behs = vlib.generate(c, "Toolbox", "ToolboxGen.tla", gen_cfg(c, "pure"), workers=4, timeout=1500)
    exe = build.result()
    calls = [b[0] for b in behs]
    calls.sort(key=lambda x: (x["f"], json.dumps(x["tag"])))
    for pt in key_points(c.seed, 10 if c.quick else 80):
        call = {"f": "vk", "a": [pt[0]] + le(pt[1], 32) + le(pt[2], 32) + certificate(pt[1], pt[2]), "tag": ["vk", pt[0]]}
        if pt[3] is not None:
            call["expect"] = [pt[3]]
        calls.append(call)
    c.sample({"call": {k: v for k, v in calls[0].items()}})
    vec = [x for x in calls if x["tag"][0] == "vec"]
    c.sample({"published_vector_call": vec[0]})
    # 3. replay on the real code, 4. validate
    chunks, repro = chunked(c, calls, 4)
    results = run_and_validate(c, exe, chunks, "c37")
    counts = report(c, results, lines_for(repro))
    c.extra["events_by_action"] = counts
    n_expect = sum(1 for m, ev, d in results if "expect" in ev)
    accepted_expect = sum(1 for m, ev, d in results if "expect" in ev and d is None)
    c.extra["published_sample_values_validated"] = {"events_with_expect": n_expect, "accepted": accepted_expect}
    vk = [(m, ev) for m, ev, d in results if ev["e"] == "vk"]
    c.extra["public_key_events"] = {"total": len(vk), "accepted_by_code": sum(1 for m, ev in vk if ev["res"]),
                                    "by_class": {k: sum(1 for m, ev in vk if m["cls"] == "vk:" + k) for k in VK_CLASSES.values()}}
    for m, ev, d in results[:400]:
        if ev["e"] == "f5" and d is None:
            c.sample({"validated_event": {k: v for k, v in ev.items() if k != "ecb"}, "ecb_blocks_logged": len(ev["ecb"])})
            break
    # vacuity
    missing = [f for f in ("c1", "s1", "f4", "f5", "f6", "g2", "aes", "sk", "vk") if counts.get(f, 0) == 0]
    if missing or n_expect < 11:
        raise vlib.ToolFailure("vacuous run: no events for %s / only %d published-value events" % (missing, n_expect))
    if not any(ev["res"] for m, ev in vk) or all(ev["res"] for m, ev in vk):
        c.note("is_valid_public_key returned the same verdict for every sampled point")
    c.exhaustive = False    # the TLC-enumerated family was replayed completely, but the family samples the input space
    c.extra["family_enumerated_and_replayed_completely"] = True
    c.note("C37 decides structure/layout over an uninterpreted cipher on the enumerated family; see not_decided")


def run_c38(c, build, ex):
    # 1. design level: generator designs against Toolbox!CreatePasskey for every stream over a boundary alphabet
    f_mc = ex.submit(vlib.model_check, c, "Toolbox", "PasskeyGen.tla", "MC.cfg" if c.quick else "MCThorough.cfg", workers=2)
    f_raw = ex.submit(vlib.model_check, c, "Toolbox", "PasskeyGen.tla", "MCRaw.cfg", workers=1, must_hold=False, coverage=False)
    # 2. RNG streams from the model
    behs = vlib.generate(c, "Toolbox", "ToolboxGen.tla", gen_cfg(c, "passkey"), workers=2, timeout=1500)
    f_mc.result()
    r = f_raw.result()
    if r.violated != "PasskeySixDigits":
        raise vlib.ToolFailure("PasskeyGen raw3 design: expected the counterexample to PasskeySixDigits, got %s" % r.violated)
    cx = [l.strip() for l in r.counterexample().splitlines() if "shown =" in l or "buf =" in l]
    c.extra["design_counterexample_raw3"] = cx[-6:]
    # 3. the real generator, 4. validation
    exe = build.result()
    calls = sorted([b[0] for b in behs], key=lambda x: (json.dumps(x["tag"]), x["a"]))
    c.sample({"rng_stream_call": calls[0]})
    chunks, repro = chunked(c, calls, 2 if c.quick else 4)
    results = run_and_validate(c, exe, chunks, "c38")
    counts = report(c, results, lines_for(repro))
    c.extra["events_by_action"] = counts
    ok = [ev for m, ev, d in results if ev["e"] == "create_passkey" and d is None]
    bad = [ev for m, ev, d in results if ev["e"] == "create_passkey" and d is not None]
    c.extra["passkey_events"] = {"in_range": len(ok), "rejected_by_spec": len(bad),
                                 "largest_value_seen": max([ev["shown_lo"] for ev in ok + bad] or [0])}
    if ok:
        c.sample({"accepted": ok[0]})
    if bad:
        c.sample({"rejected": bad[0]})
    if counts.get("create_passkey", 0) < 50:
        raise vlib.ToolFailure("vacuous run: %d create_passkey events" % counts.get("create_passkey", 0))
    c.exhaustive = False


def replay(c, exe):
    # the model side of a replay run: the small design level checks (keeps the evidence of this run complete)
    if c.prop == "C38":
        vlib.model_check(c, "Toolbox", "PasskeyGen.tla", "MC.cfg", workers=2)
    else:
        cfg = vlib.write_cfg(c, "gen_replay.cfg", "CONSTANTS NRnd = 1  HotVals = {}  RHot = FALSE  Seed = 1  NPassRnd = 0  "
                             "PassGrid = FALSE  Which = \"pure\"\nSPECIFICATION GSpec\n"
                             "INVARIANTS WellFormed Sensitive PassShape TypeOK PasskeySixDigits\nCHECK_DEADLOCK FALSE\n")
        vlib.model_check(c, "Toolbox", "ToolboxGen.tla", cfg, workers=2, coverage=False)
    case = json.load(open(c.replay))["case"]
    lines = case["lines"]
    meta = []
    it = iter(case["meta"])
    for l in lines:
        op = l.split()[0]
        meta.append({"f": "Reset"} if op == "reset" else None if op == "expect" else next(it))
    results = run_and_validate(c, exe, [(lines, meta)], "replay")
    c.sample([{k: v for k, v in ev.items() if k not in ("ecb", "cert")} for m, ev, d in results])
    report(c, results, lambda m: lines)
