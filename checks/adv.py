"""C24 / C25 - advertising: channels, timing, start/stop/count (C24); which requests are followed (C25).

spec/Advertising/Advertising.tla        property-level acceptor of everything observable while advertising
spec/Advertising/AdvertisingMC.tla      closed system (environment + allowed radio behaviour), exhaustively checked
spec/Advertising/AdvertisingGen.tla     behaviour generator for C24 (families map / iv / ctl + random deep ones)
spec/Advertising/AdvertisingTrace.tla   trace validation of the recorded calls of the real link layer
harness/adv/adv_harness.cpp             real link_layer<Server, harness radio, options...> (ADV_CFG = configuration)
"""
import json
import os
import random
from concurrent.futures import ThreadPoolExecutor

import vlib

PROPS = ["C24", "C25"]
META = {
    "C24": {
        "text": "TLC checks the advertiser acceptor (Advertising.tla) composed with every application call / radio "
                "callback exhaustively; TLC-generated input sequences (all 7 channel maps, map changes between "
                "transmissions, run-time intervals 20/21/33/100/152/1022/10239/10240 ms and the ignored 19/10241 ms, "
                "compile-time advertising_interval<20|33|21|152|1022|10239|10240>, start/stop/count/connect/disconnect "
                "sequences, runs of >= 12 advertising events per configured interval so that every pseudo random delay "
                "including 0 ms is observed, random deep ones) are replayed on the real link_layer<> over a harness-owned "
                "scheduled radio and every call and every schedule_advertisment (channel, time in us, count) is validated "
                "by TLC: event starts are >= interval and <= interval rounded up to 0.625 ms + 10 ms apart.",
        "note": "time is the radio's T0 + when (scheduled_radio.hpp contract, no PDU air time); tolerances T1-T4 named in "
                "Advertising.tla (map call during a running sequence, count = PDUs, interval set, type change, T5 interval "
                "may be rounded up - never down - to the advInterval unit of 0.625 ms); "
                "trusted: TLC, harness radio, g++/ASan.",
        "technique": "TLA+ model checking (TLC) + TLC-generated behaviours replayed on the real class + TLC trace validation",
        "design_ref": "5.7"},
    "C25": {
        "text": "The grid PDU type 0..15 x length field x reported size x AdvA own/other x RxAdd x TxAdd x InitA x "
                "advertising type (4, multi-type and single-type link layers) x connection filter off/listed/not listed x "
                "own address random/public is enumerated by the python check, every PDU is handed to the real "
                "link_layer::adv_received and TLC decides from the raw bytes (AcceptConnect in Advertising.tla) whether a "
                "connection event or the next advertisement had to be scheduled; filter functions and the scan response "
                "data offered to the radio are validated the same way.",
        "note": "scan requests are validated and answered inside the radio bindings (nrf52.hpp::is_valid_scan_request, "
                "needs radio hardware); the link-layer template is_valid_scan_request is never called. Decided here: "
                "connect-request half completely; scan half only as far as host code decides it (response data offered "
                "iff advertising is scannable, is_scan_request_in_filter / is_connection_request_in_filter, SCAN_REQ "
                "reaching adv_received keeps advertising). Valid connection parameters only (C22 covers the others).",
        "technique": "TLA+ model checking (TLC) + enumerated PDU grid replayed on the real class + TLC trace validation",
        "design_ref": "5.7"},
}

WORKERS = 4
TLC_TIMEOUT = 3000        # seconds per TLC run (the sandbox is shared with other checks)
SPECDIR = "Advertising"
OWN = [0x47, 0x11, 0x08, 0x15, 0x0f, 0xc0]           # random static address of the harness radio's seed
OWN_PUB = [0x21, 0x43, 0x65, 0x87, 0xa9, 0x4b]       # `reset pub`
OTHER = [0x99, 0x11, 0x08, 0x15, 0x0f, 0xc0]
LLDATA = [0x5a, 0xb3, 0x9a, 0xaf, 0x08, 0x81, 0xf6, 0x03, 0x0b, 0x00, 0x18, 0x00, 0x00, 0x00, 0x48, 0x00,
          0xff, 0xff, 0xff, 0xff, 0x1f, 0xaa]          # valid connection parameters (C22 covers invalid ones)

# compiled link-layer configurations (ADV_CFG in harness/adv/adv_harness.cpp)
CFG = {
    1: dict(auto=False, varmap=True, variv=True, iv0=100),
    2: dict(auto=True, varmap=True, variv=True, iv0=100),
    3: dict(auto=True, varmap=False, variv=False, iv0=20),
    4: dict(auto=False, varmap=False, variv=False, iv0=10240),
    5: dict(types=[0, 1, 6, 2], wl=True, peer=True),
    6: dict(types=[1], wl=True, peer=True),
    7: dict(types=[6], wl=True, peer=False),
    8: dict(types=[2], wl=False, peer=False),
    9: dict(types=[0], wl=False, peer=False, manual=True),
    # compile-time intervals that are no multiples of 0.625 ms (advInterval unit) / 5 ms
    10: dict(auto=True, varmap=False, variv=False, iv0=33),
    11: dict(auto=True, varmap=False, variv=False, iv0=21),
    12: dict(auto=True, varmap=False, variv=False, iv0=152),
    13: dict(auto=True, varmap=False, variv=False, iv0=1022),
    14: dict(auto=True, varmap=False, variv=False, iv0=10239),
}
IV_MS = [20, 21, 33, 100, 152, 1022, 10239, 10240]     # valid run-time intervals of AdvertisingGen.tla (IvMs without 19, 10241)
LONG_D = 40          # free operations of the "long" family: >= 12 advertising events with three channels
MIN_DISTANCES = 11   # event distances to observe per configured interval (bluetoe's delay sequence has period 11)


def addr_bytes(k):
    return [k // 2 + 1, 0x10, 0x20, 0x30, 0x40, 0xC0]


def sources():
    ll = [s for s in vlib.LL_SOURCES if os.path.exists(s)]
    return ["adv/adv_harness.cpp"] + ll


def build_cfgs(c, ids):
    exes = {}
    ids = list(ids)
    for i in range(0, len(ids), WORKERS):
        part = ids[i:i + WORKERS]
        outs = vlib.build_many(c, [dict(name="adv_%d" % k, sources=sources(), defines=["ADV_CFG=%d" % k],
                                        opt="-O0" if c.quick else "-O1") for k in part])
        exes.update(dict(zip(part, outs)))
    return exes


def tbool(b):
    return "TRUE" if b else "FALSE"


# ------------------------------------------------------------------------------------------
# scripts
# ------------------------------------------------------------------------------------------
def conn_req(own, ownr, inita=None, txadd=True):
    inita = inita or addr_bytes(1)
    return [5 | (0x40 if txadd else 0) | (0x80 if ownr else 0), 34] + inita + own + LLDATA


def scan_req(own, ownr):
    return [3 | 0x40 | (0x80 if ownr else 0), 12] + addr_bytes(1) + own


def op_line(op):
    name = op[0]
    if name == "rxok":
        p = conn_req(OWN, True)
        return "rx %d %s" % (len(p), " ".join(str(b) for b in p))
    if name == "rxbad":
        p = scan_req(OWN, True)
        return "rx %d %s" % (len(p), " ".join(str(b) for b in p))
    return " ".join(str(x) for x in op)


def script_of(behaviour, tail=4):
    return ["reset"] + [op_line(op) for op in behaviour] + ["disc?", "drain %d" % tail]


def execute(c, exe, tag, scripts, descr=None):
    """scripts: list of executions (each a list of script lines). Runs them on `exe` -> list of trace jobs."""
    if not scripts:
        return []
    nparts = max(1, min(WORKERS, sum(len(s) for s in scripts) // 6000))
    jobs = []
    for i, part in enumerate(vlib.chunks(list(range(len(scripts))), nparts)):
        sp = os.path.join(c.build_dir, "s_%s_%d.txt" % (tag, i))
        tp = os.path.join(c.build_dir, "t_%s_%d.ndjson" % (tag, i))
        vlib.write_lines(sp, [l for k in part for l in scripts[k]])
        rc, out = vlib.run_harness(exe, [sp, tp])
        if rc != 0:
            raise vlib.ToolFailure("harness failed rc=%d (%s): %s" % (rc, tag, out[-2000:]))
        jobs.append(dict(trace=tp, tag=tag, scripts=[scripts[k] for k in part], descr=[descr[k] for k in part] if descr else None))
    return jobs


def validate(c, jobs):
    """validates the traces with TLC (WORKERS at a time) -> list of (tag, execution events, index of the event no
    specification action explains, descriptor); counts events by action."""
    tcfg = os.path.join(vlib.SPEC, SPECDIR, "Trace.cfg")
    with ThreadPoolExecutor(WORKERS) as ex:
        verdicts = list(ex.map(lambda j: vlib.validate_trace(SPECDIR, "AdvertisingTrace.tla", tcfg, j["trace"], timeout=TLC_TIMEOUT), jobs))
    bad = []
    counts = c.extra.setdefault("events_by_action", {})
    for job, v in zip(jobs, verdicts):
        execs = vlib.split_executions(job["trace"])
        if len(execs) != len(job["scripts"]):
            raise vlib.ToolFailure("trace %s has %d executions, expected %d" % (job["trace"], len(execs), len(job["scripts"])))
        c.add_traces(len(execs), v.events)
        for first, evs in execs:
            for e in evs:
                counts[e["e"]] = counts.get(e["e"], 0) + 1
                if e["e"] == "AdvRx" and e.get("ncn") == 1:
                    counts["AdvRx:connected"] = counts.get("AdvRx:connected", 0) + 1
        for ln in v.mismatch_lines:
            k = [j for j, e in enumerate(execs) if e[0] <= ln][-1]
            first, evs = execs[k]
            bad.append((job["tag"], evs, ln - first, job["descr"][k] if job["descr"] else None))
        if len(c.samples) < 5:
            c.sample({"configuration": job["tag"], "script": job["scripts"][0][:12], "trace_head": execs[0][1][:6]})
    return bad


def run_and_validate(c, exe, tag, scripts, descr=None):
    return validate(c, execute(c, exe, tag, scripts, descr))


# ------------------------------------------------------------------------------------------
# signatures (descriptions of the failing case; the verdict itself is TLC's)
# ------------------------------------------------------------------------------------------
def context(evs, k):
    """state of the inputs before event k, replayed from the logged calls (channel map, radio pending, last tx)"""
    m = {37, 38, 39}
    pend = False
    prev_ch = None
    cause = None
    changed = False
    iv = None
    for e in evs[:k]:
        n = e["e"]
        if n == "Reset":
            iv = e.get("iv_us", 0) // 1000
        elif n == "SetIv" and 20 <= e["ms"] <= 10240:
            iv = e["ms"]
        if n == "AddCh":
            m.add(e["c"]); changed = True
        elif n == "RemCh":
            m.discard(e["c"]); changed = True
        if n == "AdvTx":
            pend = True
            prev_ch = e["ch"]
            if cause in ("Run", "Start", "StartN", "Disc"):
                changed = False
        elif "pend" in e:
            pend = e["pend"]
            cause = n
    return m, pend, prev_ch, cause, changed, iv


def signature(evs, k, d=None):
    e = evs[k]
    n = e["e"]
    m, pend, prev_ch, cause, changed, iv = context(evs, k)
    ms = "+".join(str(x) for x in sorted(m))
    if n == "AdvTx":
        if e.get("busy"):
            return "AdvTx:busy:after=%s" % cause
        if e["ch"] not in m:
            return "AdvTx:dis:map=%s:ch=%d:prev=%s:after=%s" % (ms, e["ch"], prev_ch, cause)
        if cause in ("Run", "Start", "StartN", "Disc"):
            if e["ch"] != min(m):
                return "AdvTx:fresh:notfirst:after=%s" % cause
            return "AdvTx:fresh:other:after=%s" % cause
        return "AdvTx:seq:map=%s:prev=%s:ch=%d:when=%s:after=%s%s" % (
            ms, prev_ch, e["ch"], "0" if e.get("when_us", 0) == 0 else "iv%sms" % iv, cause, ":mapcall" if changed else "")
    if n == "AdvRx":
        cls = d_class(d, evs, k) if d else "type=%d:len=%d:size=%d" % (e["pdu"][0] & 15 if e["pdu"] else -1,
                                                                      e["pdu"][1] if len(e["pdu"]) > 1 else -1, e["size"])
        return "AdvRx:%s:ncn=%s:ntx=%s" % (cls, e.get("ncn"), e.get("ntx"))
    if n in ("Start", "StartN", "Stop", "Timeout", "Run", "Disc"):
        return "%s:pend=%s:ntx=%s" % (n, "1" if pend else "0", e.get("ntx"))
    if n == "Crash":
        return "Crash:after=%s" % (evs[k - 1]["e"] if k else "-")
    if n == "FilterQ":
        return "FilterQ:scan=%s:conn=%s" % (e.get("scan"), e.get("conn"))
    return "%s:ntx=%s" % (n, e.get("ntx"))


def d_class(d, evs, k):
    """descriptor of the k-th event's PDU in a C25 execution: d = dict(setup=..., pdus=[class strings])"""
    j = sum(1 for e in evs[:k] if e["e"] == "AdvRx")
    cls = d["pdus"][j] if j < len(d["pdus"]) else "?"
    return "%s:%s" % (d["setup"], cls)


def report(c, bad):
    for tag, evs, k, d in bad:
        sig = signature(evs, k, d)
        case = {"cfg": evs[0].get("cfg"), "events": evs[:k + 1]}
        c.finding(sig, "link layer configuration %s: event %s is not a step of Advertising.tla (execution prefix of %d events)"
                  % (tag, json.dumps(evs[k])[:300], k + 1), case)


# ------------------------------------------------------------------------------------------
# C24
# ------------------------------------------------------------------------------------------
FAM = {"map": 1, "iv": 2, "ctl": 3, "all": 4, "long": 5}


def plan_no(cfgid, fam, d, maxchg):
    return cfgid * 1000000 + FAM[fam] * 10000 + d * 100 + maxchg


def gen(c, plans, name, simulate=None, depth=None):
    """one TLC run of AdvertisingGen.tla for a set of plans -> dict plan number -> behaviours (plan element stripped)"""
    text = ("CONSTANTS Profile = \"c24\" Plans = {%s}\nSPECIFICATION GSpec\nINVARIANTS Emit\nCHECK_DEADLOCK FALSE\n"
            % ", ".join(str(p) for p in plans))
    cfg = vlib.write_cfg(c, "gen_%s.cfg" % name, text)
    if simulate:
        behs = vlib.generate(c, SPECDIR, "AdvertisingGen.tla", cfg, simulate=simulate, depth=depth, seed=c.seed, workers=1,
                             timeout=TLC_TIMEOUT)
    else:
        behs = vlib.generate(c, SPECDIR, "AdvertisingGen.tla", cfg, workers=1, timeout=TLC_TIMEOUT)
    res = {}
    for b in behs:
        res.setdefault(b[0][1], []).append(b[1:])
    return res


def run_c24(c):
    c.assumptions += [
        "radio contract of scheduled_radio.hpp: each schedule_advertisment is relative to the previous one (T0 := T0 + when); "
        "the harness radio reports adv_timeout / adv_received only for the scheduled advertisement",
        "T1: a channel map call while an advertising sequence runs is documented as unsupported - until the next event "
        "starts only 'never on a disabled channel' is demanded",
        "T2: start_advertising(n) counts PDUs (implementation comment + repository tests); the class documentation says events",
        "T3/T4: interval / advertising type changes may take effect at the next event / PDU or later start",
        "T5: advInterval is a multiple of 0.625 ms (Core Vol 6 Part B 4.4.2.2.1); an interval configured in ms may be rounded "
        "up to the next multiple, never down: interval <= distance of event starts (us) <= roundup(interval) + 10 ms",
        "the channel map is never emptied (documented precondition)"]
    if c.replay:
        return replay(c, {})
    q = c.quick
    ids = [1, 2, 3, 10] if q else [1, 2, 3, 4, 10, 11, 12, 13, 14]
    fixed = [i for i in ids if not CFG[i]["variv"]]
    bfs = [   # (configuration, family, D, MaxChg): every input sequence of the family
        (2, "map", 5 if q else 7, 2 if q else 3),
        (2, "iv", 4 if q else 6, 2 if q else 3),
        (1, "ctl", 3 if q else 4, 0),
        (3, "ctl", 3 if q else 5, 0),
    ] + ([] if q else [(4, "ctl", 4, 0), (1, "map", 6, 3)])
    # >= 12 advertising events with every configured interval (run-time: first / sixth operation sets it; all 7 maps)
    bfs += [(2, "long", LONG_D, 1 if q else 2)] + ([] if q else [(1, "long", LONG_D, 1)]) + [(i, "long", LONG_D, 0) for i in fixed]
    sim = [(1, "all", 30 if q else 60, 6 if q else 12), (2, "all", 30 if q else 60, 6 if q else 12)] \
        + ([] if q else [(3, "all", 40, 0), (4, "all", 40, 0)])
    nsim = 100 if q else 800
    with ThreadPoolExecutor(4) as ex:          # model checking, compiling and generating side by side
        fm = ex.submit(vlib.model_check, c, SPECDIR, "AdvertisingMC.tla", "MC.cfg" if q else "MCfull.cfg", workers=2, timeout=TLC_TIMEOUT)
        fb = ex.submit(build_cfgs, c, ids)
        fg = ex.submit(gen, c, [plan_no(*p) for p in bfs], "bfs")
        fs = ex.submit(gen, c, [plan_no(*p) for p in sim], "sim", simulate=nsim, depth=3 * max(p[2] for p in sim) + 10)
        fm.result()
        exes = fb.result()
        by_plan = fg.result()
        for k, v in fs.result().items():
            by_plan.setdefault(k, []).extend(v)
    per_cfg = {}
    fam_counts = {}
    for p in bfs + sim:
        behs = by_plan.get(plan_no(*p), [])
        if not behs:
            raise vlib.ToolFailure("no behaviour generated for plan %s" % (p,))
        fam_counts["cfg%d:%s:D=%d:%s" % (p[0], p[1], p[2], "random" if p in sim else "all")] = len(behs)
        per_cfg.setdefault(p[0], []).extend(behs)
        c.sample({"cfg": p[0], "family": p[1], "behaviour": behs[0]})
    c.extra["behaviours"] = fam_counts
    c.extra["rule"] = ("behaviours are produced by TLC from AdvertisingGen.tla (BFS = all input sequences of the family "
                       "up to D, random = -simulate); the check appends 'disc?' and 4 conditional adv_timeout callbacks so that "
                       "the effect of the last call is observed")
    c.exhaustive = True
    jobs = []
    for cfgid, behs in per_cfg.items():
        jobs += execute(c, exes[cfgid], "c%d" % cfgid, [script_of(b) for b in behs])
    report(c, validate(c, jobs))
    need = ["Run", "Start", "StartN", "Stop", "AddCh", "RemCh", "SetIv", "Timeout", "AdvRx", "Disc", "AdvTx", "AdvRx:connected"]
    missing = [a for a in need if not c.extra["events_by_action"].get(a)]
    if missing:
        raise vlib.ToolFailure("vacuous: no validated event for %s" % missing)
    # coverage of the interval rule: distances of consecutive event starts observed per configured interval
    cov = interval_coverage(jobs)
    c.extra["event_distances"] = {
        k: {"n": len(v), "min_minus_interval_us": min(v), "max_minus_interval_us": max(v), "distinct": len(set(v))}
        for k, v in sorted(cov.items())}
    want = ["cfg%d:%dms" % (i, CFG[i]["iv0"]) for i in fixed] + ["cfg2:%dms" % ms for ms in IV_MS]
    thin = [k for k in want if len(cov.get(k, [])) < MIN_DISTANCES]
    if thin:
        raise vlib.ToolFailure("vacuous: fewer than %d distances of consecutive advertising events observed for %s" % (MIN_DISTANCES, thin))
    no0 = [k for k in want if min(cov[k]) > 0]
    if no0:
        c.note("no pair of advertising events exactly one interval apart (advDelay 0) observed for %s" % no0)


def interval_coverage(jobs):
    """coverage statistics only (the verdict is TLC's): "cfg<k>:<interval>ms" -> list of (distance between the starts of two
    consecutive advertising events in us) - interval, for events between which neither the interval nor the channel map
    was changed nor advertising was restarted."""
    cov = {}
    for job in jobs:
        for first, evs in vlib.split_executions(job["trace"]):
            iv = start = cfgid = None
            clean = False
            for e in evs:
                n = e["e"]
                if n == "Reset":
                    iv, cfgid, start = e["iv_us"], e["cfg"], None
                elif n == "SetIv":
                    if 20 <= e["ms"] <= 10240:
                        iv = e["ms"] * 1000
                    clean = False
                elif n == "AdvTx":
                    if e["when_us"] > 0 or start is None:
                        if clean and start is not None:
                            cov.setdefault("cfg%d:%dms" % (cfgid, iv // 1000), []).append(e["t_us"] - start - iv)
                        start, clean = e["t_us"], True
                elif n != "Timeout":
                    clean = False
                    if n in ("Run", "Start", "StartN", "Stop", "Disc", "AdvRx"):
                        start = None
    return cov


# ------------------------------------------------------------------------------------------
# C25
# ------------------------------------------------------------------------------------------
LENS = [0, 11, 12, 13, 33, 34, 35, 37]


def pdu_grid(quick, own, ownr):
    """-> list of (bytes, size, class string). Plain grid, enumerated here (not by TLC)."""
    out = []
    for t in range(16):
        full = t in (3, 5) or not quick
        for lenf in (LENS if full else [12, 34]):
            sizes = [2 + min(lenf, 34)]
            if lenf == 34:
                sizes += [14, 35]
            elif t == 5 and full:
                sizes += [36]
            for size in sorted(set(sizes)):
                for adva_own in ((True, False) if full else (True,)):
                    for rxadd_ok in ((True, False) if full else (True,)):
                        for txadd in ((True, False) if full else (True,)):
                            for ib in ((1, 2) if full else (1,)):
                                rxadd = ownr if rxadd_ok else not ownr
                                hdr = t | (0x40 if txadd else 0) | (0x80 if rxadd else 0)
                                payload = addr_bytes(2 * ib - 1) + (own if adva_own else OTHER) + LLDATA
                                p = [hdr, lenf] + payload[:size - 2]
                                cls = "t=%d:len=%d:size=%d:adva=%s:rxadd=%s:txadd=%d:init=%d" % (
                                    t, lenf, size, "own" if adva_own else "other", "ok" if rxadd_ok else "bad",
                                    1 if txadd else 0, 2 * (ib - 1) + (1 if txadd else 0))
                                out.append((p, size, cls))
    return out


FILTERS = {"off": [], "wl1": ["wladd 1", "wlconn 1"], "wl02": ["wladd 0", "wladd 2", "wlconn 1", "wlscan 1"]}


def c25_setups(cfgid, quick):
    k = CFG[cfgid]
    res = []
    for pub in (False, True):
        for ti, tcode in enumerate(k["types"]):
            for fname in (FILTERS if k["wl"] else ["off"]):
                for peer in ([1] if quick else [1, 2]) if k["peer"] else [None]:
                    ops = ["reset pub" if pub else "reset"]
                    if peer is not None:
                        ops.append("peer %d" % peer)
                    if len(k["types"]) > 1:
                        ops.append("type %d" % ti)
                    ops += FILTERS[fname]
                    if k.get("manual"):
                        ops.append("start")
                    ops.append("run")
                    ops += ["qf %d" % a for a in range(4)]
                    name = "cfg%d:adv=%d:own=%s:filter=%s:peer=%s" % (cfgid, tcode, "pub" if pub else "rnd", fname, peer)
                    res.append((name, ops, pub))
    return res


def run_c25(c):
    c.assumptions += [
        "scan requests are validated and answered by the radio binding (nrf52.hpp::is_valid_scan_request, needs hardware "
        "registers): decided here only as far as host code decides - scan response data offered to the radio iff the "
        "advertising PDU is ADV_IND / ADV_SCAN_IND, is_scan_request_in_filter, SCAN_REQ handed to adv_received keeps advertising",
        "the radio hands adv_received at most the receive buffer it was given (36 bytes) and at least the 2 byte header",
        "connect requests carry valid connection parameters (C22 decides invalid ones)",
        "length field values < 64 (the RFU bits of the 4.x header length are not exercised)",
        "directed advertising address is set before advertising starts"]
    if c.replay:
        return replay(c, {})
    ids = [5, 6] if c.quick else [5, 6, 7, 8, 9]
    with ThreadPoolExecutor(2) as ex:
        fm = ex.submit(vlib.model_check, c, SPECDIR, "AdvertisingMC.tla", "MC25.cfg" if c.quick else "MC25full.cfg", workers=WORKERS,
                       timeout=TLC_TIMEOUT)
        fb = ex.submit(build_cfgs, c, ids)
        fm.result()
        exes = fb.result()
    rnd = random.Random(c.seed)
    chunk = 60
    total = 0
    jobs = []
    for cfgid in ids:
        scripts, descr = [], []
        for name, ops, pub in c25_setups(cfgid, c.quick):
            own = OWN_PUB if pub else OWN
            grid = pdu_grid(c.quick, own, not pub)
            total += len(grid)
            for i in range(0, len(grid), chunk):
                part = grid[i:i + chunk]
                lines = list(ops)
                for p, size, cls in part:
                    lines += ["sync37", "rx %d %s" % (size, " ".join(str(b) for b in p)), "disc?"]
                    if CFG[cfgid].get("manual"):
                        lines.append("start")         # manual start: a connection switches advertising off
                lines.append("drain 2")
                scripts.append(lines)
                descr.append({"setup": name, "pdus": [x[2] for x in part]})
        # scenario executions: type / filter changes while advertising, requests on any channel
        if len(CFG[cfgid]["types"]) > 1:
            for s in range(10 if c.quick else 100):
                lines = ["reset", "peer 1", "run"]
                cl = []
                for _ in range(40):
                    r = rnd.random()
                    if r < 0.25:
                        lines.append("type %d" % rnd.randrange(4))
                    elif r < 0.35:
                        lines.append("wlconn %d" % rnd.randrange(2))
                    elif r < 0.45:
                        lines.append("wladd %d" % rnd.randrange(4))
                    elif r < 0.7:
                        lines.append("to")
                    else:
                        ia = rnd.randrange(4)
                        p = conn_req(OWN, rnd.random() < 0.9, addr_bytes(ia), bool(ia & 1))
                        lines += ["sync37", "rx %d %s" % (len(p), " ".join(str(b) for b in p)), "disc?"]
                        cl.append("scenario:init=%d" % ia)
                lines.append("drain 2")
                scripts.append(lines)
                descr.append({"setup": "cfg%d:scenario" % cfgid, "pdus": cl})
        jobs += execute(c, exes[cfgid], "c%d" % cfgid, scripts, descr)
    report(c, validate(c, jobs))
    c.extra["pdus_replayed"] = total
    c.extra["rule"] = ("plain grid enumerated by the python check (checks/adv.py:pdu_grid x c25_setups), every cell handed to "
                       "the real adv_received; before each PDU adv_timeout is delivered until the advertisement on air is on "
                       "channel 37 (keeps C25 independent of the C24 restart-channel finding)")
    c.exhaustive = not c.quick
    ea = c.extra["events_by_action"]
    missing = [a for a in ["AdvRx", "AdvRx:connected", "AdvTx", "Disc", "FilterQ", "WlAdd", "ConnF", "Peer", "Type"] if not ea.get(a)]
    if missing:
        raise vlib.ToolFailure("vacuous: no validated event for %s" % missing)
    if ea["AdvRx:connected"] * 4 > ea["AdvRx"]:
        c.note("unexpectedly many accepted requests: %d of %d" % (ea["AdvRx:connected"], ea["AdvRx"]))


# ------------------------------------------------------------------------------------------
def events_to_script(evs):
    lines = []
    for e in evs:
        n = e["e"]
        if n == "Reset":
            lines.append("reset pub" if not e.get("ownr", True) else "reset")
        elif n == "Run":
            lines.append("run")
        elif n == "Start":
            lines.append("start")
        elif n == "StartN":
            lines.append("startn %d" % e["n"])
        elif n == "Stop":
            lines.append("stop")
        elif n == "AddCh":
            lines.append("add %d" % e["c"])
        elif n == "RemCh":
            lines.append("rem %d" % e["c"])
        elif n == "SetIv":
            lines.append("iv %d" % e["ms"])
        elif n == "Timeout":
            lines.append("to")
        elif n == "AdvRx":
            lines.append("rx %d %s" % (e["size"], " ".join(str(b) for b in e["pdu"])))
        elif n == "Disc":
            lines.append("disc")
        elif n == "WlAdd":
            lines.append("wladd %d" % ((e["a"][0] - 1) * 2 + (1 if e["ar"] else 0)))
        elif n == "WlClear":
            lines.append("wlclear")
        elif n == "ConnF":
            lines.append("wlconn %d" % (1 if e["b"] else 0))
        elif n == "ScanF":
            lines.append("wlscan %d" % (1 if e["b"] else 0))
        elif n == "FilterQ":
            lines.append("qf %d" % ((e["a"][0] - 1) * 2 + (1 if e["ar"] else 0)))
        elif n == "Peer":
            lines.append("peer %d" % ((e["a"][0] - 1) * 2 + (1 if e["ar"] else 0)))
        elif n == "Type":
            lines.append("type %d" % e["k"])
    return lines


def replay(c, exes):
    case = json.load(open(c.replay))["case"]
    cfgid = case["cfg"]
    if cfgid not in exes:
        exes.update(build_cfgs(c, [cfgid]))
    lines = events_to_script(case["events"])
    bad = run_and_validate(c, exes[cfgid], "replay-c%d" % cfgid, [lines])
    c.sample(lines)
    report(c, bad)
    if not bad:
        c.note("replayed case is accepted by the specification")


def run(c):
    if c.prop == "C24":
        run_c24(c)
    else:
        run_c25(c)
