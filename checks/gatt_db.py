"""C04 - attribute handles are consistent with the declared database.

spec/Gatt/GattDb.tla      Build(decl): the attribute table the Core spec + Bluetoe documentation prescribe; C04 as TableOK
spec/Gatt/GattDecl.tla    the space of small declarations, exhaustively checked against TableOK (MC.cfg)
spec/Gatt/GattDeclGen.tla TLC -simulate sampler of larger declarations (seeded by VERIF_SEED)
spec/Gatt/GattTrace.tla   trace validation: Count / Idx / Probe events of a compiled server against Build(decl)
harness/gatt              generic harness, compiled once per generated server (tools/gen_server.py)
"""
import json
import threading

import vlib
from checks import _gatt

PROPS = ["C04"]
META = {"C04": {
    "text": "GattDb.tla builds the attribute table prescribed by the Bluetooth spec and the Bluetoe documentation from an "
            "abstract server declaration; TLC checks the C04 invariants (unique non-zero increasing handles, fixed handles "
            "honoured, characteristic declaration = [properties, value handle, UUID], include declaration = real range of the "
            "included service) on every small declaration of GattDecl.tla. For each hand-written corner declaration and "
            "each TLC-sampled declaration a real bluetoe::server<> is generated and compiled; its table is dumped through "
            "handle_index_mapping and through the protocol (Find Information, Read, Read By Type of every handle up to "
            "beyond the last one) and TLC validates every dump event against Build(decl).",
    "note": "declaration bounds of GattDecl (<= 2 services x <= 2 characteristics exhaustively; sampled: <= 4 services x <= 3 "
            "characteristics); options outside the declaration format (mixins, custom GAP service, user descriptors, auto "
            "UUIDs) are not covered; trusted: TLC, tools/gen_server.py, harness/gatt, g++/ASan.",
    "technique": "TLA+ reference construction model checked with TLC + generated C++ servers + TLC trace validation of the dumped table",
    "design_ref": "5.1"}}

N_SAMPLED = {"quick": 0, "thorough": 40}


def upto(srv):
    """generous upper bound for the probed handles (no table knowledge: fixed handles + attribute count bound)"""
    n = srv.norm
    top, cnt = 0, 0
    for s in n["services"]:
        top = max(top, s["handle"])
        cnt += 1 + len(s["includes"])
        for ch in s["chars"]:
            top = max([top, ch["handle"]] + ch["handles"])
            cnt += 4
    return top + cnt + (5 if n["opts"]["gap"] else 0) + 3


def dump_script(srv):
    m = _gatt.big_mtu(srv)
    return ["reset"] + (["mtu 0 %d" % m] if m > 23 else []) + ["dump %d" % upto(srv)]


MAPPING_FIELDS = {"h", "ix", "fx", "fi", "n", "index_out_of_table"}


def signature(why):
    """<context>|<class>|<event:kind of the model attribute>|<failed fields>
    context: inc = an include declaration at or before this table position, fixed = declaration with fixed handles, plain
    class:   mapping = the attribute is not found under the handle the table prescribes; value = it is, but its value differs"""
    name, ctx, tags = why
    cls = "mapping" if MAPPING_FIELDS & set(tags) else "value"
    return "%s|%s|%s|%s" % (ctx, cls, name, ",".join(tags))


def report(c, srv, script, mismatches):
    for tp, ln, ev, why in mismatches:
        c.finding(signature(why),
                  "server %s: dump event %s is not the table GattDb!Build prescribes (%s)" % (srv.name, json.dumps(ev)[:300], why),
                  {"decl": srv.decl, "script": script, "event": ev, "line": ln})


def run(c):
    c.assumptions += ["the declaration format of spec/Gatt/README.md (no mixins, custom GAP service, auto UUIDs, user descriptors)",
                      "handles are probed up to (largest fixed handle + 4 * #characteristics + #services + 8) and at 0xFFFF"]
    if c.replay:
        return replay(c)
    # 1. the reference construction itself, on all small declarations (in the background while the servers compile)
    mc = {}
    cfg = "MC.cfg" if c.quick else "MCThorough.cfg"

    def model():
        try:
            mc["r"] = vlib.tlc(_gatt.SPEC_DIR, "GattDecl.tla", cfg, workers=4 if c.quick else 8, timeout=2400)
        except Exception as e:          # noqa: BLE001
            mc["e"] = e
    th = threading.Thread(target=model)
    th.start()
    # 2. declarations -> servers
    servers = _gatt.prepare(c, _gatt.load_decls(c, N_SAMPLED[c.tier]))
    _gatt.build_servers(c, servers)
    c.extra["declarations"] = [_gatt.decl_summary(s) for s in servers]
    c.extra["rule"] = ("declarations: hand-written corner list + TLC -simulate of GattDeclGen.tla seeded by VERIF_SEED; "
                      "probe grid (handles 0..bound, 0xFFFF) enumerated by the harness")
    jobs = [(s, "dump", dump_script(s)) for s in servers]
    traces = _gatt.run_scripts(c, jobs)
    counts = _gatt.count_events(traces, {})
    c.extra["events_by_action"] = counts
    for k in ("Reset", "Count", "Idx", "Probe"):
        if not counts.get(k):
            raise vlib.ToolFailure("vacuous: no %s event recorded" % k)
    mism = _gatt.validate(c, traces)
    th.join()
    if "e" in mc:
        raise mc["e"]
    r = mc["r"]
    c.add_model_run("GattDecl", cfg, r)
    if r.violated or r.error or not r.completed or r.distinct < 1000:
        raise vlib.ToolFailure("GattDecl %s failed: violated=%s error=%s distinct=%d\n%s" % (cfg, r.violated, r.error, r.distinct, r.out[-3000:]))
    by_trace = {}
    for m in mism:
        by_trace.setdefault(m[0], []).append(m)
    for s, tp in zip(servers, traces):
        report(c, s, dump_script(s), by_trace.get(tp, []))
    c.sample({"declaration": servers[0].decl, "events": vlib.read_ndjson(traces[0])[1:6]})
    c.sample({"declaration": servers[-1].name, "events": vlib.read_ndjson(traces[-1])[1:4]})
    c.exhaustive = False


def replay(c):
    case = json.load(open(c.replay))["case"]
    servers = _gatt.prepare(c, [case["decl"]])
    _gatt.build_servers(c, servers)
    tp = _gatt.run_script(c, servers[0], "replay", case["script"])
    mism = _gatt.validate(c, [tp])
    c.sample(vlib.read_ndjson(tp)[:5])
    report(c, servers[0], case["script"], mism)
