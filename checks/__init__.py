"""Registry of property checks.  Every module checks/<name>.py declares

    PROPS = ["C26"]                     # the property ids it decides
    META  = {"C26": {"text": ..., "note": ..., "technique": ..., "design_ref": ...}}   # for MANIFEST.json
    def run(c): ...                      # c is a vlib.Check; c.prop tells which property is asked for

The registry is built by scanning the files (no import), so modules cannot break each other."""
import glob
import os
import re

REGISTRY = {}
for _p in sorted(glob.glob(os.path.join(os.path.dirname(__file__), "*.py"))):
    _n = os.path.basename(_p)[:-3]
    if _n.startswith("_"):
        continue
    _m = re.search(r"^PROPS\s*=\s*\[([^\]]*)\]", open(_p).read(), re.M)
    if _m:
        for _id in re.findall(r"C\d+", _m.group(1)):
            REGISTRY[_id] = _n
