# property id -> python module (in this package) that decides it
REGISTRY = {
    "C26": "c26",
}
