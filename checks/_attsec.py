"""Shared machinery of checks/att_security.py (C05, C07, C10, C01); built on checks/_gatt.py (declarations, gen_server,
GattDb table summary) with an own harness (harness/attsec) and own specification modules (spec/AttSec).

    decls                c05_decl(placement), c07_decls(), c10_decls(...), corner declarations through _gatt
    servers = prepare(c, decls)          gen_server + <name>_ext.hpp (notify / indicate by UUID) + TLC table summary
    build(c, servers)                    one attsec harness per declaration (parallel, VERIF_JOBS)
    behaviours(c, srv, mode, ...)        TLC (AttSecModel.tla) -> list of operation lists for that declaration
    script_of(srv, behaviour)            operation list -> harness script lines
    run(c, srv, tag, scripts)            run the harness; a crash ends the process: the remaining executions are run
                                         in a new process (-> trace files, list of crashed executions)
    validate(c, mode, traces)            TLC (AttSecTrace.tla) -> [(trace, line, event, (name, ctx, tags), execution)]

The name starts with "_" so that checks/__init__.py does not take it for a check module."""
import itertools
import json
import os
import random
from concurrent.futures import ThreadPoolExecutor

import vlib
from checks import _gatt

SPEC_DIR = "AttSec"
JOBS = int(os.environ.get("VERIF_JOBS", "0")) or 4       # the brief: at most 4 workers
HARNESS_ENV = {"UBSAN_OPTIONS": "print_stacktrace=0:abort_on_error=1",
               "ASAN_OPTIONS": "detect_leaks=0:abort_on_error=0:allocator_may_return_null=1"}
OPTS = ["inherit", "requires", "none", "may"]


# ------------------------------------------------------------------------------------------ declarations
def c05_decl(p, name, gap=False):
    """2 services x 2 characteristics; p = (server, service1, service2, c11, c12, c21, c22) encryption options.
    UUID octets, handles and initial values stay below 0xA0: the markers of protected values (0xA0..0xDF) and the
    payloads written by the client (0xE0..0xFF) can not occur in a legitimate response by accident."""
    def ch(uuid, enc, cccd):
        c = {"uuid": uuid, "value": {"kind": "bound", "size": 4}, "encryption": enc}
        if cccd:
            c["notify"] = True
            c["indicate"] = True
        return c
    return {"name": name, "comment": "C05 placement %s" % (list(p),),
            "server": {"write_queue": 40, "max_mtu": 48, "gap_service": gap, "encryption": p[0]},
            "services": [{"uuid": "1501", "encryption": p[1], "chars": [ch("1511", p[3], True), ch("1512", p[4], False)]},
                         {"uuid": "1502", "encryption": p[2], "chars": [ch("1521", p[5], True), ch("1522", p[6], False)]}]}


C05_FIXED = [      # always compiled: every option at every level decides at least once, may in every position
    ("requires", "inherit", "none", "inherit", "none", "requires", "may"),
    ("inherit", "requires", "may", "none", "inherit", "requires", "inherit"),
    ("none", "inherit", "requires", "requires", "may", "none", "inherit"),
    ("may", "none", "requires", "requires", "inherit", "may", "none"),
    ("requires", "may", "inherit", "inherit", "requires", "inherit", "none"),
    ("inherit", "inherit", "inherit", "requires", "inherit", "inherit", "requires"),
]


def c05_placements(n, seed):
    rnd = random.Random(seed)
    out = list(C05_FIXED[:n])
    while len(out) < n:
        p = tuple(rnd.choice(OPTS) for _ in range(7))
        if p not in out and "requires" in p:
            out.append(p)
    return out


def c07_decls():
    def d(name, wq):
        return {"name": name, "comment": "C07: shared_write_queue<%d>; open, protected and read-only value" % wq,
                "server": {"write_queue": wq, "gap_service": False},
                "services": [{"uuid": "1701", "chars": [
                    {"uuid": "1711", "value": {"kind": "bound", "size": 4}},
                    {"uuid": "1712", "value": {"kind": "bound", "size": 4}, "encryption": "requires"},
                    {"uuid": "1713", "value": {"kind": "bound", "size": 2}, "no_write": True}]}]}
    return [d("c07_wq22", 22), d("c07_wq11", 11)]


def c10_decl(name, srv_prio, svc_prio1, svc_prio2):
    """5 notifying characteristics in 2 services; priorities: server level list of services, service level lists of
    characteristics (1-based positions) or None"""
    server = {"gap_service": False}
    if srv_prio:
        server["priority"] = {"kind": "higher", "services": srv_prio}
    s1 = {"uuid": "1A01", "chars": [
        {"uuid": "1A11", "value": {"kind": "bound", "size": 2}, "notify": True},
        {"uuid": "1A12", "value": {"kind": "bound", "size": 2}, "notify": True, "indicate": True}]}
    s2 = {"uuid": "1A02", "chars": [
        {"uuid": "1A21", "value": {"kind": "bound", "size": 2}, "indicate": True},
        {"uuid": "1A22", "value": {"kind": "bound", "size": 30}, "notify": True},
        {"uuid": "1A23", "value": {"kind": "bound", "size": 2}, "notify": True, "encryption": "requires"}]}
    if svc_prio1:
        s1["priority"] = {"kind": "higher", "chars": svc_prio1}
    if svc_prio2:
        s2["priority"] = {"kind": "higher", "chars": svc_prio2}
    return {"name": name, "comment": "C10: priorities server=%s service1=%s service2=%s" % (srv_prio, svc_prio1, svc_prio2),
            "server": server, "services": [s1, s2]}


def c10_decls(n, seed):
    fixed = [c10_decl("c10_plain", None, None, None),
             c10_decl("c10_srvprio", [2], None, None),
             c10_decl("c10_svcprio", None, [2], [3, 2]),
             c10_decl("c10_both", [2], [2], [2])]
    rnd = random.Random(seed)
    out = fixed[:n]
    seen = set()
    while len(out) < n:
        sp = rnd.choice([None, [1], [2], [2, 1]])
        p1 = rnd.choice([None, [1], [2], [2, 1]])
        p2 = rnd.choice([None, [1], [2], [3], [3, 1], [2, 3], [3, 2, 1]])
        key = json.dumps([sp, p1, p2])
        if key in seen or (sp is None and p1 is None and p2 is None):
            continue
        seen.add(key)
        out.append(c10_decl("c10_rand%02d" % len(out), sp, p1, p2))
    return out


# ------------------------------------------------------------------------------------------ servers
def ext_header(norm):
    """<name>_ext.hpp: notify / indicate by characteristic UUID for every bound 16 bit characteristic whose UUID is
    unique in the server (notify< UUID >() addresses the first characteristic with that UUID)"""
    uuids = [tuple(ch["uuid"]) for s in norm["services"] for ch in s["chars"]]
    cases = []
    for s in norm["services"]:
        for ch in s["chars"]:
            u = ch["uuid"]
            if len(u) != 2 or uuids.count(tuple(u)) != 1:
                continue
            ut = "bluetoe::characteristic_uuid16< 0x%04X >" % (u[0] | (u[1] << 8))
            if ch["notify"]:
                cases.append("        if ( serial == %d && !indication ) return srv.template notify< %s >() ? 1 : 0;" % (ch["serial"], ut))
            if ch["indicate"]:
                cases.append("        if ( serial == %d && indication ) return srv.template indicate< %s >() ? 1 : 0;" % (ch["serial"], ut))
    return ("// generated by checks/_attsec.py - do not edit\n#ifndef VERIF_ATTSEC_EXT_HPP\n#define VERIF_ATTSEC_EXT_HPP\n"
            "namespace verif_ext {\n    template < class Server >\n    inline int notify_uuid( Server& srv, int serial, bool indication )\n    {\n"
            "        (void)srv; (void)serial; (void)indication;\n%s\n        return -1;\n    }\n}\n#endif\n" % "\n".join(cases))


def prepare(c, decls):
    servers = _gatt.prepare(c, decls)
    for s in servers:
        s.ext = os.path.join(os.path.dirname(s.hpp), s.name + "_ext.hpp")
        with open(s.ext, "w") as f:
            f.write(ext_header(s.norm))
        t = s.table
        s.cccds = [h for h, k in zip(t["handles"], t["kinds"]) if k == "cccd"]
        s.values = [h for h, k in zip(t["handles"], t["kinds"]) if k == "value"]
    return servers


def build(c, servers):
    def one(s):
        s.exe = vlib.build(c, "attsec_" + s.name, ["attsec/attsec_harness.cpp"],
                           defines=['VERIF_SERVER_HEADER="%s"' % os.path.basename(s.hpp),
                                    'VERIF_EXT_HEADER="%s"' % os.path.basename(s.ext)],
                           includes=["-I" + os.path.dirname(s.hpp)])
        return s
    with ThreadPoolExecutor(min(len(servers), JOBS)) as ex:
        return list(ex.map(one, servers))


# ------------------------------------------------------------------------------------------ TLC: model + behaviours
def model_cfg(c, name, depth, scenarios, invariants, emit):
    inv = list(invariants) + (["Emit"] if emit else [])
    return vlib.write_cfg(c, name, "SPECIFICATION Spec\nCONSTANTS Depth = %d Scenarios = %s\n%s%sCHECK_DEADLOCK FALSE\n"
                          % (depth, int(scenarios),
                             ("INVARIANTS " + " ".join(inv) + "\n") if inv else "",
                             "" if emit else "VIEW View\n"))


def tlc_model(srv, mode, cfg, nc, **kw):
    return vlib.tlc(SPEC_DIR, "AttSecModel.tla", cfg, env={"DECLS": srv.norm_path, "ATTSEC_MODE": mode, "ATTSEC_NC": nc},
                    workers=kw.pop("workers", JOBS), **kw)


def model_check(c, srv, mode, depth, scenarios, invariants, nc=2, timeout=2400):
    """exhaustive exploration of the design level model (history hidden by VIEW); part of the evidence"""
    cfg = model_cfg(c, "mc_%s_%s.cfg" % (mode, srv.name), depth, scenarios, invariants, False)
    r = tlc_model(srv, mode, cfg, nc, timeout=timeout, coverage=False)
    c.add_model_run("AttSecModel[%s,%s]" % (mode, srv.name), "depth=%d nc=%d" % (depth, nc), r)
    if r.error or r.violated or not r.completed:
        raise vlib.ToolFailure("model check AttSecModel mode %s on %s failed: violated=%s error=%s\n%s"
                               % (mode, srv.name, r.violated, r.error, r.out[-4000:]))
    return r


def behaviours(c, srv, mode, depth, scenarios, nc=2, simulate=None, seed=None, timeout=2400, per_trace=3):
    """all operation sequences of the model up to `depth` (BFS) or random ones of that depth (`simulate` traces; TLC's
    simulator evaluates Emit on every successor of the last but one state, `per_trace` of them are kept per trace)"""
    cfg = model_cfg(c, "gen_%s_%s_%d.cfg" % (mode, srv.name, depth), depth, scenarios, ["RefConforms"], True)
    if simulate:
        r = tlc_model(srv, mode, cfg, nc, simulate=simulate, depth=depth + 40, seed=seed, workers=1, timeout=timeout)
    else:
        r = tlc_model(srv, mode, cfg, nc, timeout=timeout)
        c.add_model_run("AttSecModel[%s,%s] generator" % (mode, srv.name), "depth=%d nc=%d" % (depth, nc), r)
    if r.violated or r.error:
        raise vlib.ToolFailure("generator AttSecModel mode %s on %s failed: %s %s\n%s" % (mode, srv.name, r.violated, r.error, r.out[-3000:]))
    b = vlib.behaviours(r)
    if not b:
        raise vlib.ToolFailure("generator AttSecModel mode %s on %s produced no behaviour\n%s" % (mode, srv.name, r.out[-3000:]))
    if simulate:
        groups, rnd = {}, random.Random(seed)
        for x in b:
            groups.setdefault(json.dumps(x[:-1]), []).append(x)
        b = [x for k in sorted(groups) for x in rnd.sample(groups[k], min(per_trace, len(groups[k])))]
    return b


def line_of(op):
    k = op["op"]
    if k == "req":
        return "req %d %s" % (op["c"] - 1, " ".join(str(b) for b in op["in"]))
    if k == "sec":
        return "sec %d %d %d" % (op["c"] - 1, 1 if op["enc"] else 0, op["pair"])
    if k == "notify":
        return "notify %d %d %d" % (op["serial"], 1 if op["ind"] else 0, op["how"])
    if k in ("out", "drain", "disc"):
        return "%s %d" % (k, op["c"] - 1)
    if k == "setval":
        return "setval %d %s" % (op["serial"], " ".join(str(b) for b in op["val"]))
    raise vlib.ToolFailure("unknown operation %r" % (op,))


def script_of(srv, behaviour, observe=True):
    """one execution: reset, the CCCDs to observe, the operations"""
    head = ["reset", "cccds " + " ".join(str(h) for h in srv.cccds)]
    if not observe:
        head.append("obs 0")
    return head + [(o if isinstance(o, str) else line_of(o)) for o in behaviour]


# ------------------------------------------------------------------------------------------ running the harness
def run(c, srv, tag, scripts):
    """scripts: list of executions (each a list of script lines starting with 'reset'). Every line produces exactly
    one event. A crash (ASan / UBSan / signal) ends the harness: the Crash event is kept and the executions behind the
    crashed one run in a new process. -> (list of trace paths, list of (execution index, line index in execution))"""
    traces, crashes = [], []
    first, part = 0, 0
    while first < len(scripts):
        sp = os.path.join(c.build_dir, "%s_%s_%d.txt" % (srv.name, tag, part))
        tp = os.path.join(c.build_dir, "%s_%s_%d.ndjson" % (srv.name, tag, part))
        lines = [l for s in scripts[first:] for l in s]
        vlib.write_lines(sp, lines)
        rc, out = vlib.run_harness(srv.exe, [srv.norm_path, sp, tp], env=HARNESS_ENV, timeout=1800)
        traces.append(tp)
        n_events, last = 0, None
        with open(tp) as f:
            for line in f:
                if line.strip():
                    n_events += 1
                    last = line
        crashed = last is not None and '"e":"Crash"' in last
        if rc != 0 and not crashed:
            raise vlib.ToolFailure("attsec harness failed rc=%d on %s: %s" % (rc, sp, out[-2000:]))
        if not crashed:
            if n_events != len(lines):
                raise vlib.ToolFailure("attsec harness: %d events for %d script lines (%s)" % (n_events, len(lines), sp))
            break
        # the crash happened while script line number n_events (1-based: n_events - 1 complete events) was executed
        k, acc = first, 0
        while acc + len(scripts[k]) < n_events:
            acc += len(scripts[k])
            k += 1
        crashes.append((k, n_events - 1 - acc, out[-1500:]))
        first = k + 1
        part += 1
    return [merge_traces(traces, os.path.join(c.build_dir, "%s_%s.ndjson" % (srv.name, tag)))], crashes


def merge_traces(paths, out):
    """one file from the traces of consecutive harness processes (a Crash event is followed by the next Reset)"""
    if len(paths) == 1:
        return paths[0]
    with open(out, "w") as f:
        for p in paths:
            with open(p) as g:
                for line in g:
                    f.write(line if line.endswith("\n") else line + "\n")
            os.remove(p)
    return out


def trace_cfg(c):
    return vlib.write_cfg(c, "attsec_trace.cfg", "SPECIFICATION TSpec\nCHECK_DEADLOCK FALSE\n")


def split_trace(path, max_lines=12000):
    """split a long trace at Reset events into parts of about max_lines events -> list of part paths"""
    with open(path) as f:
        lines = [l for l in f if l.strip()]
    if len(lines) <= max_lines * 3 // 2:
        return [path]
    parts, cur = [], []
    for l in lines:
        if l.startswith('{"e":"Reset"') and len(cur) >= max_lines:
            parts.append(cur)
            cur = []
        cur.append(l)
    if cur:
        parts.append(cur)
    out = []
    for i, p in enumerate(parts):
        pp = "%s.part%d.ndjson" % (path[:-7], i)
        with open(pp, "w") as f:
            f.writelines(p)
        out.append(pp)
    return out


def validate(c, mode, traces):
    """-> list of mismatches (trace_path, line_no, event, (name, ctx, [tags]), events of the execution up to the line);
    long traces are validated in parts (one TLC each, JOBS in parallel)"""
    res = []
    if not traces:
        return res
    cfg = trace_cfg(c)
    parts = [(tp, pp) for tp in traces for pp in split_trace(tp)]
    with ThreadPoolExecutor(min(len(parts), JOBS)) as ex:
        verdicts = list(ex.map(lambda p: vlib.validate_trace(SPEC_DIR, "AttSecTrace.tla", cfg, p[1], timeout=1800,
                                                             env={"ATTSEC_MODE": mode}, heap="4g -Xss64m"), parts))
    for (tp, pp), v in zip(parts, verdicts):
        why = _gatt.parse_why(v.out)
        evs = vlib.read_ndjson(pp)
        c.add_traces(sum(1 for e in evs if e.get("e") == "Reset"), v.events)
        for ln in v.mismatch_lines:
            i = ln - 1
            while i > 0 and evs[i].get("e") != "Reset":
                i -= 1
            res.append((tp, ln, evs[ln - 1], why.get(ln, ("?", "?", ["undiagnosed"])), evs[i:ln]))
    return res


def count_events(traces, counts):
    for tp in traces:
        for e in vlib.read_ndjson(tp):
            k = e.get("e")
            if k == "Req" and e.get("in"):
                k = "Req:0x%02x" % e["in"][0]
            counts[k] = counts.get(k, 0) + 1
    return counts


def lines_of_events(evs):
    """script lines that reproduce the logged events of one execution (replay files store events)"""
    out = []
    for e in evs:
        k = e["e"]
        if k == "Reset":
            out.append("reset")
        elif k == "Cccds":
            out.append("cccds " + " ".join(str(h) for h in e["hs"]))
        elif k == "Obs":
            out.append("obs %d" % (1 if e["on"] else 0))
        elif k == "SetVal":
            out.append("setval %d %s" % (e["serial"], " ".join(str(b) for b in e["val"])))
        elif k == "Mtu":
            out.append("mtu %d %d" % (e["c"], e["cm"]))
        elif k == "Req":
            out.append("req %d %s" % (e["c"], " ".join(str(b) for b in e["in"])))
        elif k == "Sec":
            out.append("sec %d %d %d" % (e["c"], 1 if e["enc"] else 0, e["pair"]))
        elif k == "Notify":
            out.append("notify %d %d %d" % (e["serial"], 1 if e["ind"] else 0, e["how"]))
        elif k in ("Out", "Drain", "Disc"):
            out.append("%s %d" % (k.lower(), e["c"]))
    return out
