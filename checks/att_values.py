"""C06 - reads and writes follow the attribute value semantics;  C08 - ATT MTU negotiation bounds every PDU;
C09 - client characteristic configuration is per connection and exact.

spec/Att/AttValues.tla        property-level model: value store, MTU per connection, CCCD per connection, prepared writes;
                              Outcomes(c, pdu) = set of allowed [response pattern, next state, callback count]
spec/Att/AttValuesMC.tla      exhaustive check of the listed properties on a small declaration (MC06/MC08/MC09[T].cfg)
spec/Att/AttValuesGen.tla     behaviour generator over the model declaration (abstract operations, BFS to depth D / -simulate)
spec/Att/AttValuesTrace.tla   trace validation of the recorded calls of the real server (MISMATCH / WHY / TRACE_DONE)
spec/Att/decls/*.json         declarations (format of spec/Gatt/README.md): att_small*, c06_*, c08_*, c09_*
harness/att/att_harness.cpp   generic harness: generated server + CCCD callback option, 3 connections, full state log per call

Reuses the GATT foundation (tools/gen_server.py, spec/Gatt/GattDb.tla, checks/_gatt.py) unchanged."""
import json
import os
import random
import threading
import time
from concurrent.futures import ThreadPoolExecutor

import vlib
from checks import _gatt

PROPS = ["C06", "C08", "C09"]
_TECH = ("TLA+ specification of the ATT value store / MTU / CCCD model checked with TLC + TLC-generated and seeded random "
         "request sequences replayed on generated C++ servers + TLC trace validation of every call")
META = {
    "C06": {
        "text": "AttValues.tla models the value store of a GATT server (bytes per characteristic value, permissions from the "
                "declaration) and defines for every ATT request the set of allowed responses and the next store: a write of m <= n "
                "octets replaces the first m octets, longer writes are Invalid Attribute Value Length, a rejected write changes "
                "nothing, Read / Read Blob / Read Multiple / Read By Type return the current bytes from the offset cut to MTU-1, "
                "Invalid Offset past the end, Read / Write Not Permitted on every access path (incl. Write Command, Prepare / Execute "
                "Write) for values without the permission, properties octet = permissions. TLC checks these on the complete state "
                "space of a small declaration. TLC-generated request sequences (all sequences of the operation alphabet to depth "
                "2/3 + random deep ones), scaled onto generated servers with bound values of 1..50 octets, const / fixed values, "
                "no_read_access / no_write_access and read / write handlers bound to a store, plus seeded random sequences of "
                "50-200 requests with arbitrary offsets and lengths are executed on the real server; after every request the "
                "whole value store is logged and TLC validates response and store against the model.",
        "note": "unencrypted link (C05 owns security); Prepare Queue Full is always an allowed answer (C07 owns the queue); Prepare "
                "Write to a CCCD is not sent (crash owned by C01); contents of discovery responses other than Read By Type are C02/C03; "
                "declarations: hand written + (thorough) TLC-sampled; trusted: TLC, gen_server.py, harness/att, g++/ASan.",
        "technique": _TECH, "design_ref": "5.1"},
    "C08": {
        "text": "AttValues.tla: Mtu(c) = min(server maximum, last valid client MTU >= 23), initially 23; an Exchange MTU request with "
                "a wrong length or a value below 23 gets an error and changes nothing, the response carries the server maximum; every "
                "response, notification and indication has at most Mtu(c) octets and long values are cut to exactly Mtu(c)-1 / "
                "Mtu(c)-3 octets. Servers with max_mtu_size 23 (default), 24, 48, 65, 247; all sequences of up to 2 (quick) / 3 "
                "(thorough) Exchange MTU requests with client values {0,22,23,24,47,48,65,300,65535} and wrong lengths, each followed "
                "by reads (Read, Read Blob, Read By Type, Read Multiple) of a 250 octet value and a notification and an indication "
                "of it, polled through server::l2cap_output with the capacity bluetoe's l2cap layer offers; TLC validates every PDU.",
        "note": "which characteristic is notified when is C10-C12; the output capacity offered to l2cap_output is the server's "
                "maximum MTU as in bluetoe/l2cap.hpp; trusted: TLC, gen_server.py, harness/att, g++/ASan.",
        "technique": _TECH, "design_ref": "5.1"},
    "C09": {
        "text": "AttValues.tla: cccd[connection][descriptor] in 0..3; a 2 octet write stores octet 1 modulo 4, shorter writes replace a "
                "prefix (or are refused), longer ones are refused with Invalid Attribute Value Length, a read returns <<bits, 0>>, "
                "no other descriptor and no other connection changes, the subscription callback "
                "(client_characteristic_configuration_update_callback) fires exactly when the stored bits change. Servers with 1, "
                "4, 5 and 9 CCCDs, with and without outgoing priorities (which permute the storage positions), three connection "
                "objects on one server; TLC-generated write sequences (all sequences to depth 2 over values 0..3, 4, 0xFF, 0x0100, "
                "lengths 0..3, request and command) mapped onto descriptor groups that straddle the 4-per-octet packing boundary, "
                "plus seeded random sequences; after every request every CCCD of every connection is read back and TLC validates "
                "response, all read-backs and the callback count.",
        "note": "Prepare Write to a CCCD is not sent (C01); trusted: TLC, gen_server.py, harness/att, g++/ASan.",
        "technique": _TECH, "design_ref": "5.1"}}

SPEC_DIR = "Att"
DECL_DIR = os.path.join(vlib.SPEC, "Att", "decls")
JOBS = max(1, min(4, int(os.environ.get("VERIF_JOBS", "4"))))
CHUNK = 5000          # events per trace file


def load(name):
    return json.load(open(os.path.join(DECL_DIR, name + ".json")))


# ------------------------------------------------------------------------------------------------ server view
class Char:
    pass


def characteristics(srv):
    """characteristics of a generated server with their handles - handles come from TLC's evaluation of GattDb (srv.table)"""
    t = srv.table
    flat = [ch for s in srv.norm["services"] for ch in s["chars"]]
    out, k = [], 0
    for j, kind in enumerate(t["kinds"]):
        if kind != "value":
            continue
        c = Char()
        c.vh = t["handles"][j]
        c.dh = t["handles"][j - 1]
        c.ch = t["handles"][j + 1] if j + 1 < len(t["kinds"]) and t["kinds"][j + 1] == "cccd" else None
        c.uuid = t["types"][j]
        n = flat[k] if k < len(flat) else None          # None: characteristic of the implicit GAP service
        c.norm = n
        c.size = len(n["init"]) if n else None
        c.serial = n["serial"] if n else None
        c.can_notify = bool(n and n["vkind"] == "bound" and n["notify"])
        c.can_indicate = bool(n and n["vkind"] == "bound" and n["indicate"])
        out.append(c)
        k += 1
    return out


def le16(v):
    return [v & 0xff, (v >> 8) & 0xff]


def req(c, pdu):
    return "req %d %s" % (c, " ".join(str(b) for b in pdu))


def pos(code, n):
    return [0, min(1, n), max(n - 1, 0), n, n + 1][code]


CCCD_VALUES = [[], [0], [1], [2], [3], [4], [255], [0, 0], [1, 0], [2, 0], [3, 0], [0, 1], [253, 255], [7, 0], [1, 0, 0]]


class Scaler:
    """encodes the abstract operations of AttValuesGen.tla for a real server (the TLA+ twin is AttValuesGen!PduOf).
    cmap: model characteristic k (1-based) -> Char ; gmap: model CCCD i -> Char with a CCCD"""

    def __init__(self, srv, chars, cmap, gmap, salt, mtu):
        self.srv, self.chars, self.cmap, self.gmap, self.salt, self.mtu = srv, chars, cmap, gmap, salt, mtu
        self.nohandle = srv.table["maxHandle"] + 7

    def vh(self, k):
        return self.cmap[k].vh if k in self.cmap else self.nohandle

    def size(self, k):
        c = self.cmap.get(k)
        return (c.size if c.size is not None else 2) if c else 1

    def fill(self, n, f):
        return [(37 * i + 101 * f + self.salt) & 0xff for i in range(n)]

    def clip(self, pdu):
        return pdu[:self.mtu]          # a client never sends more than the MTU

    def line(self, op):
        kind, c = op[0], op[1]
        if kind == "disc":
            return "disc %d" % c
        if kind == "rd":
            p = [0x0a] + le16(self.vh(op[2]))
        elif kind == "decl":
            p = [0x0a] + le16(self.cmap[op[2]].dh if op[2] in self.cmap else self.nohandle)
        elif kind == "blob":
            p = [0x0c] + le16(self.vh(op[2])) + le16(pos(op[3], self.size(op[2])))
        elif kind == "multi":
            p = [0x0e] + le16(self.vh(op[2])) + le16(self.vh(op[3]))
        elif kind == "rbt":
            u = self.cmap[op[2]].uuid if op[2] in self.cmap else [0xF0, 0xFF]
            p = [0x08, 1, 0, 255, 255] + (u if len(u) == 2 else [0xF0, 0xFF])      # 128 bit types never match: known C02 defect
        elif kind in ("wr", "wc"):
            p = [0x12 if kind == "wr" else 0x52] + le16(self.vh(op[2])) + self.fill(pos(op[3], self.size(op[2])), op[4])
        elif kind == "prep":
            n = self.size(op[2])
            p = [0x16] + le16(self.vh(op[2])) + le16(pos(op[3], n)) + self.fill(pos(op[4], n), op[5])
        elif kind == "exec":
            p = [0x18, op[2]]
        elif kind == "mtu":
            p = [0x02] + le16(op[2])
        elif kind == "badmtu":
            p = [0x02, 48, 0, 0][:op[2]]
        elif kind in ("cw", "cc"):
            p = [0x12 if kind == "cw" else 0x52] + le16(self.gmap[op[2]].ch) + CCCD_VALUES[op[3]]
        elif kind == "cr":
            p = [0x0a] + le16(self.gmap[op[2]].ch)
        elif kind == "cb":
            p = [0x0c] + le16(self.gmap[op[2]].ch) + le16(op[3])
        else:
            raise vlib.ToolFailure("unknown abstract operation %r" % (op,))
        return req(c, self.clip(p))


# ------------------------------------------------------------------------------------------------ behaviours from TLC
def gen_cfg(c, mode, depth, level):
    return vlib.write_cfg(c, "gen_%s_%d_%d.cfg" % (mode, depth, level),
                          'CONSTANTS Mode = "%s"  D = %d  Level = %d\nSPECIFICATION GSpec\nINVARIANTS Emit\nCHECK_DEADLOCK FALSE\n'
                          % (mode, depth, level))


def generate(c, mode, model_norm, depth, level, simulate=None):
    """all behaviours of length `depth` (BFS) or `simulate` random ones, from AttValuesGen.tla on the model declaration"""
    r = vlib.tlc(SPEC_DIR, "AttValuesGen.tla", gen_cfg(c, mode, depth, level), env={"DECL": model_norm}, workers=1 if simulate else JOBS,
                 simulate=simulate, depth=(depth + 1) if simulate else None, seed=c.seed if simulate else None, timeout=1500)
    if r.violated or r.error:
        raise vlib.ToolFailure("generator %s depth %d failed: %s %s\n%s" % (mode, depth, r.violated, r.error, r.out[-3000:]))
    b = vlib.behaviours(r)
    if not b:
        raise vlib.ToolFailure("generator %s produced no behaviour\n%s" % (mode, r.out[-3000:]))
    if not simulate:
        c.add_model_run("AttValuesGen", "Mode=%s D=%d Level=%d" % (mode, depth, level), r)
    return b


# ------------------------------------------------------------------------------------------------ scripts per property
def cyclic(chars, n):
    return [{k + 1: chars[(i + k) % len(chars)] for k in range(n)} for i in range(len(chars))]


def c06_scripts(c, srv, behs_all, behs_3, behs_deep, rng):
    """-> list of executions (each a list of script lines starting with reset)"""
    chars = characteristics(srv)
    big = srv.norm["opts"]["mtu"]
    execs = []
    own = [ch for ch in chars if ch.norm]
    if srv.name == "att_small":
        # the model's twin: every generated behaviour literally (model characteristic k = characteristic k)
        sc = Scaler(srv, chars, {k + 1: own[k] for k in range(len(own))}, {}, 0, 23)
        sc.fill = lambda n, f: [((i + 1 + f) % 2) + 1 for i in range(n)]         # the octets of AttValuesGen!Fill
        for b in behs_all + behs_3 + behs_deep:
            execs.append(["reset"] + [sc.line(op) for op in b])
        return execs
    maps = cyclic(chars, 3)
    singles = sorted({json.dumps(op) for b in behs_all for op in b})
    for i, m in enumerate(maps):
        for mtu in (sorted({23, big}) if not c.quick else [big if i % 2 else 23]):
            head = ["reset"] + ([req(0, [2] + le16(mtu)), req(1, [2] + le16(mtu))] if mtu > 23 else [])
            sc = Scaler(srv, chars, m, {}, 16 * i + mtu, mtu)
            # every single operation of the alphabet on every characteristic (after a write that makes the value differ from its initial one)
            for s in singles:
                execs.append(head + [sc.line(["wr", 0, 1, 3, 1]), sc.line(json.loads(s)), sc.line(["rd", 1, 1])])
            picks = behs_deep[i::len(maps)] if not c.quick else behs_deep[i::max(1, len(maps) // 2)][:6]
            for b in picks:
                execs.append(head + [sc.line(op) for op in b])
    return execs


def c06_random(c, srv, rng, n_seq):
    """seeded random request sequences of 50-200 requests with arbitrary offsets and lengths (plain random inputs, drawn here)"""
    chars = characteristics(srv)
    t = srv.table
    maxh = t["maxHandle"]
    cccds = {ch.ch for ch in chars if ch.ch}
    has_q = srv.norm["opts"]["wq"] > 0
    big = srv.norm["opts"]["mtu"]
    execs = []
    for _ in range(n_seq):
        lines = ["reset"]
        mtu = {0: 23, 1: 23, 2: 23}
        for _ in range(rng.randint(50, 200)):
            con = rng.choice([0, 0, 0, 1, 2])
            ch = rng.choice(chars)
            size = ch.size if ch.size is not None else rng.randint(1, 6)
            h = ch.vh if rng.random() < 0.85 else rng.randint(0, maxh + 2)
            x = rng.random()
            room = mtu[con]

            def data(n):
                return [rng.randint(0, 255) for _ in range(max(0, n))]
            if x < 0.16:
                p = [0x0a] + le16(h)
            elif x < 0.30:
                p = [0x0c] + le16(h) + le16(rng.choice([0, 1, size - 1, size, size + 1, rng.randint(0, size + 3), rng.randint(0, 400)]) % 65536)
            elif x < 0.36:
                p = [0x0e] + [b for _ in range(rng.randint(2, 4)) for b in le16(rng.choice(chars).vh if rng.random() < 0.9 else rng.randint(0, maxh + 1))]
            elif x < 0.42:
                s, e = rng.choice([(1, 0xffff), (ch.vh, ch.vh), (ch.dh, ch.vh), (1, maxh)])
                p = [0x08] + le16(s) + le16(e) + (ch.uuid if len(ch.uuid) == 2 else [0xF1, 0xFF])
            elif x < 0.66:
                n = rng.choice([0, 1, size - 1, size, size, size + 1, rng.randint(0, size + 3)])
                p = [0x12] + le16(h) + data(min(n, room - 3))
            elif x < 0.74:
                n = rng.choice([1, size, size + 1, rng.randint(0, size + 2)])
                p = [0x52] + le16(h) + data(min(n, room - 3))
            elif x < 0.88 and has_q:
                if h in cccds:
                    h = ch.vh            # Prepare Write to a CCCD is C01's business (crash)
                off = rng.choice([0, 0, 1, size - 1, size, size + 1, rng.randint(0, size + 2)]) % 65536
                n = rng.choice([0, 1, 2, size - off, size - off + 1, rng.randint(0, 8)])
                p = [0x16] + le16(h) + le16(max(off, 0)) + data(min(n, room - 5))
            elif x < 0.93:
                p = [0x18, rng.choice([0, 1, 1, 1])]
            elif x < 0.96:
                p = [0x0a] + le16(ch.dh)
            elif x < 0.98 and big > 23:
                m = rng.choice([23, 24, big - 1, big, big + 10, 22])
                p = [0x02] + le16(m)
                if m >= 23:
                    mtu[con] = min(big, m)
            elif x < 0.99:
                lines.append("disc %d" % con)
                mtu[con] = 23
                continue
            else:
                p = [0x16] + le16(ch.vh) + le16(0) + data(2)
            lines.append(req(con, p[:room]))
        execs.append(lines)
    return execs


def c08_probe(sc, con, long_ch, short_ch, full):
    ln = [req(con, [0x0a] + le16(long_ch.vh)),
          req(con, [0x0c] + le16(long_ch.vh) + le16(7)),
          req(con, [0x08, 1, 0, 255, 255] + long_ch.uuid),
          req(con, [0x0e] + le16(long_ch.vh) + le16(short_ch.vh)),
          "notify %d 0" % long_ch.serial, "out %d" % con,
          "notify %d 1" % long_ch.serial, "out %d" % con, req(con, [0x1e])]
    if full:
        ln += [req(con, [0x04, 1, 0, 255, 255]), req(con, [0x10, 1, 0, 255, 255, 0, 0x28]),
               req(con, [0x0c] + le16(long_ch.vh) + le16(240)), req(con, [0x0a] + le16(short_ch.vh)),
               "notify %d 0" % short_ch.serial, "out %d" % con]
        if sc.srv.norm["opts"]["wq"]:
            ln += [req(con, ([0x16] + le16(long_ch.vh) + le16(3) + list(range(40)))[:23]), req(con, [0x18, 0])]
        for o in (0, 1, 2):
            if o != con:
                ln += ["out %d" % o, "out %d" % o, req(o, [0x1e])]
    return ln


def c08_scripts(c, srv, behs, full):
    chars = characteristics(srv)
    long_ch, short_ch = chars[0], chars[1]
    sc = Scaler(srv, chars, {}, {}, 0, 512)
    execs = []
    for b in behs:
        ln = ["reset"]
        for con in (0, 1) if full else (0,):
            ln += [req(con, [0x12] + le16(long_ch.ch) + [3, 0]), req(con, [0x12] + le16(short_ch.ch) + [1, 0])]
        ln += [req(0, [0x0a] + le16(long_ch.vh))]
        for op in b:
            ln.append(sc.line(op))
            if op[0] == "disc":
                ln += [req(op[1], [0x12] + le16(long_ch.ch) + [3, 0])]
            ln += c08_probe(sc, op[1], long_ch, short_ch, full)
        ln += [req(1, [0x0a] + le16(long_ch.vh)), req(2, [0x0c] + le16(long_ch.vh) + le16(1))]
        execs.append(ln)
    return execs


def c09_groups(n, quick):
    """groups of three CCCD positions (1-based) the model's descriptors 1..3 are mapped to"""
    if n == 1:
        return [(1, 1, 1)]
    g = []
    if n >= 5:
        g += [(4, 5, 1)]
    if n >= 9:
        g += [(8, 9, 4), (1, 5, 9)]
    if n == 4:
        g += [(1, 4, 2)]
    if not quick:
        g += [tuple((i + k) % n + 1 for k in range(3)) for i in range(n)]
    return g[:2] if quick else g


def c09_scripts(c, srv, si, behs_all, behs_3, behs_deep, rng):
    chars = characteristics(srv)
    cc = [ch for ch in chars if ch.ch]
    execs = []
    for gi, g in enumerate(c09_groups(len(cc), c.quick)):
        sc = Scaler(srv, chars, {}, {i + 1: cc[p - 1] for i, p in enumerate(g)}, 0, 23)
        # quick tier: every second behaviour of the complete set per group (the groups of all servers together cover it several
        # times); thorough tier: the complete set (every second server: half of it) on the first group, a 16th on every other group
        if c.quick:
            part = behs_all[(si + gi) % 2::2] if gi == 0 else behs_all[gi % 4::4]
            deep = behs_deep if gi == 0 else behs_deep[gi::4]
        else:
            part = ((behs_all if si % 2 else behs_all[::2]) + behs_3) if gi == 0 else behs_all[gi % 16::16]
            deep = behs_deep if gi == 0 else behs_deep[gi % 4::4]
        for b in part + deep:
            execs.append(["reset"] + [sc.line(op) for op in b])
    # seeded random sequences over all descriptors and connections (plain random inputs, drawn here)
    for _ in range(6 if c.quick else 80):
        ln = ["reset"]
        for _ in range(rng.randint(50, 200)):
            con = rng.randint(0, 2)
            ch = rng.choice(cc)
            x = rng.random()
            if x < 0.6:
                v = rng.choice(CCCD_VALUES + [[rng.randint(0, 255), rng.randint(0, 255)], [rng.randint(0, 3), 0], [rng.randint(0, 3), 0]])
                ln.append(req(con, [0x12 if rng.random() < 0.8 else 0x52] + le16(ch.ch) + v))
            elif x < 0.7:
                ln.append(req(con, [0x0a] + le16(ch.ch)))
            elif x < 0.78:
                ln.append(req(con, [0x0c] + le16(ch.ch) + le16(rng.randint(0, 3))))
            elif x < 0.86:
                ln.append(req(con, [0x12] + le16(ch.vh) + [rng.randint(0, 255)]))          # a value write must not touch any CCCD
            elif x < 0.92:
                ln.append(req(con, [0x0e] + le16(ch.ch) + le16(rng.choice(cc).ch)))
            elif x < 0.97:
                ln.append(req(con, [0x08, 1, 0, 255, 255, 0x02, 0x29]))                      # Read By Type <<CCCD>>
            else:
                ln.append("disc %d" % con)
        execs.append(ln)
    return execs


# ------------------------------------------------------------------------------------------------ build / run / validate
def build_servers(c, servers):
    """one harness binary per declaration; a TLC-sampled declaration that does not compile is dropped with a note (the hand
    written ones must build)"""
    def one(s):
        try:
            s.exe = vlib.build(c, "att_" + s.name, ["att/att_harness.cpp"],
                               defines=['VERIF_SERVER_HEADER="%s"' % os.path.basename(s.hpp)], includes=["-I" + os.path.dirname(s.hpp)])
        except vlib.ToolFailure as e:
            if "_sample_" not in s.name:
                raise
            s.exe = None
            c.note("sampled declaration %s dropped, it does not compile: %s" % (s.name, str(e)[-300:].replace("\n", " ")))
        return s
    with ThreadPoolExecutor(min(len(servers), JOBS)) as ex:
        list(ex.map(one, servers))
    servers[:] = [s for s in servers if s.exe]
    return servers


def run_execs(c, srv, tag, execs):
    """pack executions into trace files of about CHUNK events; -> [(trace path, script lines)]"""
    files, cur = [], []
    for e in execs:
        if cur and len(cur) + len(e) > CHUNK:
            files.append(cur)
            cur = []
        cur = cur + e
    if cur:
        files.append(cur)
    out = []
    for i, lines in enumerate(files):
        sp = os.path.join(c.build_dir, "%s_%s_%d.txt" % (srv.name, tag, i))
        tp = os.path.join(c.build_dir, "%s_%s_%d.ndjson" % (srv.name, tag, i))
        vlib.write_lines(sp, lines)
        rc, o = vlib.run_harness(srv.exe, [srv.norm_path, sp, tp])
        if rc != 0:
            raise vlib.ToolFailure("att harness failed rc=%d on %s: %s" % (rc, sp, o[-2000:]))
        out.append((srv, tp, lines))
    return out


def op_name(ev):
    if ev.get("e") != "Req":
        return ev.get("e")
    return {2: "ExchangeMtu", 4: "FindInformation", 8: "ReadByType", 10: "Read", 12: "ReadBlob", 14: "ReadMultiple", 16: "ReadByGroupType",
            18: "Write", 22: "Prepare", 24: "Execute", 30: "Confirmation", 82: "WriteCmd"}.get(ev["in"][0], "Op%d" % ev["in"][0])


def count(ev, counts):
    k = op_name(ev)
    counts[k] = counts.get(k, 0) + 1
    out = ev.get("out") or []
    if ev.get("e") == "Req" and len(out) == 5 and out[0] == 1:
        counts["error:%d" % out[4]] = counts.get("error:%d" % out[4], 0) + 1
    if ev.get("e") == "Out" and out:
        counts["Out:pdu"] = counts.get("Out:pdu", 0) + 1
        if len(out) >= 23:
            counts["Out:pdu>=23"] = counts.get("Out:pdu>=23", 0) + 1
    if ev.get("cb"):
        counts["callback"] = counts.get("callback", 0) + 1


def signature(why):
    """<request>|<attribute kind + permission options>|<sorted diagnosis tags of AttValuesTrace!Why>|<effective permissions + size class>"""
    name, ctx, tags = why
    kind, _, rest = ctx.partition("@")
    return "%s|%s|%s|%s" % (name, kind, ",".join(sorted(tags)), rest)


def validate(c, runs, counts):
    """TLC trace validation of all trace files (runs = [(server, trace path, script lines)]), JOBS at a time;
    every event the specification cannot explain becomes a finding"""
    with ThreadPoolExecutor(max(1, min(len(runs), JOBS))) as ex:
        verdicts = list(ex.map(lambda r: vlib.validate_trace(SPEC_DIR, "AttValuesTrace.tla", "Trace.cfg", r[1], timeout=2400, heap="4g"), runs))
    for (srv, tp, lines), v in zip(runs, verdicts):
        evs = vlib.read_ndjson(tp)
        if len(evs) != len(lines) and not (evs and evs[-1].get("e") == "Crash"):
            raise vlib.ToolFailure("trace %s has %d events for %d script lines" % (tp, len(evs), len(lines)))
        for e in evs:
            count(e, counts)
        c.add_traces(sum(1 for e in evs if e.get("e") == "Reset"), v.events)
        why = _gatt.parse_why(v.out)
        crash = [i + 1 for i, e in enumerate(evs) if e.get("e") == "Crash"]
        for ln in sorted(set(v.mismatch_lines + crash)):
            ev = evs[ln - 1]
            start = max(i for i in range(min(ln, len(lines))) if lines[i] == "reset")
            script = lines[start:ln]
            if ev.get("e") == "Crash":
                prev = evs[ln - 2] if ln >= 2 else {}
                w = ("Crash", (op_name(prev) if prev else "-") + "@-", [str(ev.get("what"))])
                script = lines[start:ln + 1]
            else:
                w = why.get(ln, ("?", "?@-", ["undiagnosed"]))
            c.finding(signature(w),
                      "server %s: %s is not a step of AttValues (%s); script: %s"
                      % (srv.name, json.dumps({k: ev[k] for k in ev if k != "decl"})[:500], w, " ; ".join(script[-4:])),
                      {"decl": srv.decl, "script": script, "event": {k: ev[k] for k in ev if k != "decl"}})


# ------------------------------------------------------------------------------------------------ the checks
MC_CFG = {"C06": ("MC06.cfg", "MC06T.cfg", "att_small"), "C08": ("MC08.cfg", "MC08.cfg", "att_small_mtu"),
          "C09": ("MC09.cfg", "MC09T.cfg", "att_small")}
DECLS = {"C06": ["att_small", "c06_sizes", "c06_perms"],
         "C08": ["c08_m23", "c08_m24", "c08_m48", "c08_m65", "c08_m247"],
         "C09": ["c09_n1", "c09_n4", "c09_n5p", "c09_n9", "c09_n9p"]}
NEED = {"C06": ["Read", "ReadBlob", "ReadMultiple", "ReadByType", "Write", "WriteCmd", "Prepare", "Execute",
                "error:2", "error:3", "error:7", "error:13", "error:1", "error:6"],
        "C08": ["ExchangeMtu", "Read", "ReadBlob", "ReadByType", "ReadMultiple", "Out:pdu", "Out:pdu>=23", "error:4"],
        "C09": ["Write", "WriteCmd", "Read", "callback", "error:13", "Disc"]}


def sanitize(d):
    """sampled declaration -> inside the scope of these properties: no link security (C05), no include declarations (C04 defects)"""
    d["server"]["encryption"] = "inherit"
    d["server"].pop("priority", None)
    for s in d["services"]:
        s["encryption"] = "inherit"
        s["includes"] = []
        for ch in s["chars"]:
            ch["encryption"] = "inherit"
    return d


def run(c):
    prop = c.prop
    c.assumptions += ["unencrypted link; declarations without encryption requirements and without include declarations",
                      "requests are at most ATT_MTU octets long; Prepare Write is never sent to a CCCD (C01)",
                      "the capacity offered to l2cap_input / l2cap_output is the server's maximum MTU (as bluetoe/l2cap.hpp does)",
                      "three connection objects on one server object"]
    if c.replay:
        return replay(c)
    rng = random.Random(c.seed * 1000003 + int(prop[1:]))
    names = list(DECLS[prop])
    if prop == "C09" and not c.quick:
        names.insert(2, "c09_n5")
    decls = [load(n) for n in names]
    if prop == "C06" and not c.quick and not os.environ.get("VERIF_GATT_ONLY"):
        for i, d in enumerate(_gatt.sampled_decls(c, 6)):
            d = sanitize(d)
            d["name"] = "c06_sample_%d" % (i + 1)
            decls.append(d)
    only = os.environ.get("VERIF_GATT_ONLY")
    if only:
        decls = [d for d in decls if only in d["name"]] or decls[:1]
    model_name = MC_CFG[prop][2]
    servers = _gatt.prepare(c, decls + ([load(model_name)] if model_name not in [d["name"] for d in decls] else []))
    model = [s for s in servers if s.name == model_name][0]
    servers = [s for s in servers if s.name in [d["name"] for d in decls]]

    # 1. design level (in the background while the servers compile)
    mc = {}

    def model_check():
        try:
            cfg = MC_CFG[prop][0 if c.quick else 1]
            mc["cfg"] = cfg
            mc["r"] = vlib.tlc(SPEC_DIR, "AttValuesMC.tla", cfg, env={"DECL": model.norm_path}, workers=2, timeout=3000, coverage=False)
        except Exception as e:          # noqa: BLE001
            mc["e"] = e
    th = threading.Thread(target=model_check)
    th.start()

    build_servers(c, servers)
    c.extra["declarations"] = [_gatt.decl_summary(s) for s in servers]

    # 2. behaviours: the complete set of sequences of 2 operations (alphabet level 1 in the quick, 2 in the thorough tier), in the
    #    thorough tier also all sequences of 3 operations (level 1; each server replays a share of them), and simulated deep ones
    behs_all = generate(c, prop, model.norm_path, 2, 1 if c.quick else 2)
    behs_3 = [] if c.quick else generate(c, prop, model.norm_path, 3, 1)
    ddeep = {"C06": 14, "C08": 4, "C09": 12}[prop]
    nsim = {"C06": (40, 400), "C08": (30, 200), "C09": (40, 300)}[prop][0 if c.quick else 1]
    behs_deep = generate(c, prop, model.norm_path, ddeep, 2, simulate=nsim)[:nsim]
    if os.environ.get("VERIF_ATT_SMOKE"):          # development aid: exercise every code path on a few behaviours only
        behs_all, behs_3, behs_deep = behs_all[::37], behs_3[::301], behs_deep[:5]
    c.sample({"behaviour_bfs": behs_all[len(behs_all) // 2], "behaviour_simulated": behs_deep[0]})
    c.extra["rule"] = ("behaviours: all %d sequences of 2 abstract operations of AttValuesGen (Mode %s)%s + %d simulated ones of length %d, "
                       "encoded per server by checks/att_values.py (Scaler = twin of AttValuesGen!PduOf); random request sequences "
                       "(50-200 requests, arbitrary offsets / lengths) are plain random inputs drawn by the check (seed %d)"
                       % (len(behs_all), prop, (" + all %d sequences of 3 operations (shared out over the servers)" % len(behs_3)) if behs_3 else "",
                          len(behs_deep), ddeep, c.seed))
    c.exhaustive = True

    # 3. replay on the real servers
    counts, runs = {}, []
    for s in servers:
        if prop == "C06":
            ex = c06_scripts(c, s, behs_all, behs_3[::16], behs_deep, rng) + c06_random(c, s, rng, 8 if c.quick else 60)
        elif prop == "C08":
            si, n = servers.index(s), len(servers)
            # quick tier: every sequence of 2 exchanges on two of the five servers; thorough: on all, sequences of 3 shared out
            part = (behs_all[si % n::n] + behs_all[(si + 2) % n::n]) if c.quick and n >= 3 else behs_all + behs_3[si::n]
            ex = c08_scripts(c, s, part, False) + c08_scripts(c, s, behs_deep[si::2] if c.quick else behs_deep, True)
        else:
            ex = c09_scripts(c, s, servers.index(s), behs_all, behs_3[servers.index(s)::8 * len(servers)], behs_deep, rng)
        t0 = time.time()
        rs = run_execs(c, s, prop, ex)
        runs += rs
        c.note("%s: %d executions, %d commands in %d trace files, run in %.1fs" % (s.name, len(ex), sum(len(e) for e in ex), len(rs), time.time() - t0))
        evs = vlib.read_ndjson(rs[0][1])
        c.sample({"declaration": s.name, "events": [{k: e[k] for k in e if k != "decl"} for e in evs[1:4]]})
    # 4. trace validation
    t0 = time.time()
    validate(c, runs, counts)
    c.note("%d trace files validated in %.1fs" % (len(runs), time.time() - t0))
    c.extra["events_by_action"] = counts
    for k in NEED[prop]:
        if not counts.get(k) and not only:
            raise vlib.ToolFailure("vacuous: no %s event recorded (%s)" % (k, counts))

    th.join()
    if "e" in mc:
        raise mc["e"]
    r = mc["r"]
    c.add_model_run("AttValuesMC", mc["cfg"], r)
    if r.violated or r.error or not r.completed:
        raise vlib.ToolFailure("AttValuesMC %s failed: violated=%s error=%s\n%s" % (mc["cfg"], r.violated, r.error, r.out[-3000:]))


def replay(c):
    case = json.load(open(c.replay))["case"]
    servers = _gatt.prepare(c, [case["decl"]])
    build_servers(c, servers)
    runs = run_execs(c, servers[0], "replay", [case["script"]])
    counts = {}
    validate(c, runs, counts)
    c.sample([{k: e[k] for k in e if k != "decl"} for e in vlib.read_ndjson(runs[0][1])[-3:]])
