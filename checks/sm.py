"""C32-C36 - security manager (SMP responder): protocol order, key offering, key distribution, pairing status,
pairing method selection.

spec/SecurityManager/IoCaps.tla               Core spec Vol 3 Part H 2.3.5.1 tables 2.5-2.8 (C36 reference definition)
spec/SecurityManager/IoCapsTrace.tla          every Pairing Request/Response pair of the real managers = a table row
spec/SecurityManager/SecurityManager.tla      symbolic-crypto model of the responder with guards G32..G35
spec/SecurityManager/MCSM.tla, MC*.cfg        exhaustive model checking (3 manager kinds x bonding x answer timing)
spec/SecurityManager/SecurityManagerGen.tla   transition cover of the model's state graph -> input scripts
spec/SecurityManager/SecurityManagerTrace.tla trace validation of the recorded calls of the real managers
harness/sm/sm_harness.cpp                     the three real managers with the test toolbox (real AES/uECC), harness-side
                                              central, script controlled user / OOB / bond data base
harness/sm/iocaps_matrix.cpp                  the real io_capabilities_matrix, all six local IO configurations
"""
import json
import os
import re
import shutil
import subprocess
from concurrent.futures import ThreadPoolExecutor

import vlib

PROPS = ["C32", "C33", "C34", "C35", "C36"]

_T = "TLA+ model checking (TLC) + TLC-generated behaviours replayed on the real class + TLC trace validation"
META = {
    "C32": {"text": "SecurityManager.tla (symbolic cryptography; central sends any opcode 0..15 with right/wrong length and "
                    "honest/wrong confirm, random, public key, DHKey check; user answer at any time) is model checked "
                    "exhaustively for the three manager kinds; a transition cover of its state graph is replayed on the real "
                    "legacy/lesc/combined security managers (test toolbox, real AES/ECC) and every call is validated by TLC: "
                    "accepted steps only in protocol order, Srand only after Mrand matched Mconfirm, Eb only after a correct Ea "
                    "(and the user's yes), Pairing Failed returns to idle.",
            "note": "labels are turned into bytes by a harness-side central (wrong = one flipped bit, invalid key = point off the "
                    "curve); no liveness is demanded (a valid step may be refused); trusted: TLC, harness/sm, clang/ASan/UBSan.",
            "technique": _T, "design_ref": "5.9"},
    "C33": {"text": "Same model and behaviours (each extended by find_key probes through the connection-data interface the link "
                    "layer uses); guard G33: a key is offered only for (EDIV,Rand)=(0,0) after an exchange whose every "
                    "verification step passed, and then it is the key the reference computation yields, or it is what the bond "
                    "data base legitimately holds for (EDIV,Rand,peer).",
            "note": "bond data base is a harness object (preset entry + what the manager stores); 'legitimately holds' is tracked "
                    "by the spec (stored by a verified pairing).", "technique": _T, "design_ref": "5.9"},
    "C34": {"text": "Same model and behaviours with encryption changes and output polls interleaved; guard G34: Encryption "
                    "Information / Central Identification appear only while encrypted, only after a completed pairing, each at "
                    "most once per pairing.",
            "note": "only the legacy pairing of a manager with bonding_data_base distributes keys.", "technique": _T,
            "design_ref": "5.9"},
    "C35": {"text": "Same model and behaviours; guard G35 on every event: local_device_pairing_status() = authenticated iff the "
                    "completed exchange authenticated the peer (legacy passkey/OOB with matching TK, LESC numeric comparison shown "
                    "and confirmed), unauthenticated iff completed otherwise, no_key iff not completed.",
            "note": "LESC passkey entry / OOB protocols cannot be driven (the managers refuse their PDUs), so a completed LESC "
                    "exchange with these methods is Just-Works shaped.", "technique": _T, "design_ref": "5.9"},
    "C36": {"text": "IoCaps.tla holds Tables 2.5-2.8 of Core Vol 3 Part H 2.3.5.1 (transcribed from the Core specification, sanity "
                    "checked by TLC); for every buildable manager kind x local IO configuration x MITM option x remote IO "
                    "capability 0..5 x OOB flag x local OOB data x AuthReq the Pairing Request is sent to the real manager and "
                    "TLC requires response IO capability, OOB flag and the selected legacy/LESC algorithm to equal the table row "
                    "computed from the exchanged request/response fields.",
            "note": "grid enumerated by the python check (plain grid), oracle evaluated by TLC; MITM rule (neither side requests "
                    "MITM -> Just Works) is part of the Core selection rule and enforced.",
            "technique": "TLA+ reference definition evaluated by TLC on every enumerated argument of the real function",
            "design_ref": "5.9"},
}

KINDS = ["legacy", "lesc", "combined"]
SPECDIR = "SecurityManager"


# ------------------------------------------------------------------------------------------
# building
# ------------------------------------------------------------------------------------------
def crypto_objects(c):
    """reference crypto of /repo/tests/test_tools (C sources), built once per run"""
    objs = []
    for src, extra in (("aes.c", []), ("uECC.c", ["-DuECC_CURVE=uECC_secp256r1"])):
        o = os.path.join(c.build_dir, src[:-2] + ".o")
        cmd = ["gcc", "-O2", "-std=c99", "-w", "-c", os.path.join(vlib.REPO, "tests/test_tools", src), "-o", o] + extra
        p = subprocess.run(cmd, stdout=subprocess.PIPE, stderr=subprocess.STDOUT, universal_newlines=True)
        if p.returncode != 0:
            raise vlib.ToolFailure("cannot build %s: %s" % (src, p.stdout[-2000:]))
        objs.append(o)
    return objs


def cfg_name(k):
    return "sm_%d%d%d%d%d" % (k["kind"], k["in"], k["out"], k["mitm"], k["bond"])


def build_config(c, k, objs, may_fail=False):
    try:
        return vlib.build(c, cfg_name(k), ["sm/sm_harness.cpp", vlib.REPO + "/bluetoe/utility/address.cpp"],
                          compiler="clang++", link=objs,
                          defines=["SM_KIND=%d" % k["kind"], "SM_IN=%d" % k["in"], "SM_OUT=%d" % k["out"],
                                   "SM_MITM=%d" % k["mitm"], "SM_BOND=%d" % k["bond"]])
    except vlib.ToolFailure as e:
        if may_fail:
            return None
        raise


def build_configs(c, configs, objs, jobs=8):
    """-> dict name -> exe (None when a keyboard x LESC configuration does not compile)"""
    with ThreadPoolExecutor(jobs) as ex:
        exes = list(ex.map(lambda k: build_config(c, k, objs, may_fail=(k["in"] == 2 and k["kind"] != 0)), configs))
    return {cfg_name(k): e for k, e in zip(configs, exes)}


def run_script(c, exe, name, lines):
    sp = vlib.write_lines(os.path.join(c.build_dir, name + ".txt"), lines)
    tp = os.path.join(c.build_dir, name + ".ndjson")
    rc, out = vlib.run_harness(exe, [sp, tp])
    if rc != 0:
        raise vlib.ToolFailure("harness %s failed rc=%d: %s" % (exe, rc, out[-2000:]))
    return tp


def contexts(verdict):
    """<<"CONTEXT", l, json>> lines printed by the trace specs next to a MISMATCH"""
    res = {}
    for line in verdict.out.splitlines():
        line = line.strip()
        if line.startswith('<<"CONTEXT"'):
            t = vlib.parse_tla_value(line)
            if t:
                res[int(t[1])] = json.loads(t[2])
    return res


def crash_findings(c, tp, what):
    for first, evs in vlib.split_executions(tp):
        for e in evs:
            if e.get("e") == "Crash":
                c.finding("crash:%s" % e.get("what"), "%s: crash/sanitizer report while replaying %s" % (what, evs[:-1][-3:]),
                          {"events": evs})


# ------------------------------------------------------------------------------------------
# C36
# ------------------------------------------------------------------------------------------
def c36_configs():
    return [{"kind": kind, "in": i, "out": o, "mitm": m, "bond": 0}
            for kind in (0, 1, 2) for i in (0, 1, 2) for o in (0, 1) for m in (0, 1)]


def c36_rows(c):
    auths = list(range(32)) + [0x2d, 0x48, 0xe4]                   # RFU bits set: ignored by the Core rules
    if not c.quick:
        auths = list(range(256))
    rows = []
    for data in (0, 1):
        for io in range(6):
            for oobf in (0, 1):
                for a in auths:
                    rows.append((data, io, oobf, a, 16, 0, 0))
        rows += [(data, 255, 0, 12, 16, 0, 0), (data, 1, 2, 12, 16, 0, 0), (data, 1, 0, 12, 6, 0, 0),
                 (data, 1, 0, 12, 17, 0, 0), (data, 1, 0, 12, 7, 0, 0), (data, 1, 0, 12, 16, 16, 0), (data, 1, 0, 12, 16, 0, 0x80)]
    return rows


def c36_script(rows):
    lines = []
    for (data, io, oobf, a, mk, idist, rdist) in rows:
        lines.append("reset %d -1" % data)
        lines.append("req %d %d %d %d %d %d" % (io, oobf, a, mk, idist, rdist))
    return lines


def c36_signature(ev, ctx, kind):
    if ev.get("e") == "Matrix":
        return "matrix:in=%d:out=%d:remote=%d:legacy=%s:lesc=%s:lio=%d" % (ev["in"], ev["out"], ev["io"], ev["legacy"], ev["lesc"], ev["lio"])
    exp = ctx.get("expected")
    if exp == "failed":
        return "req:%s:accepted_or_wrong_error:io=%s:oobf=%s:maxkey=%s:idist=%s:rdist=%s:sc=%d" % (
            kind, min(ev["io"], 5), ev["oobf"], ev["maxkey"], ev["idist"], ev["rdist"], (ev["auth"] >> 3) & 1)
    if not ev.get("rsp"):
        return "req:%s:valid_request_refused:err=%s" % (kind, ev.get("oerr"))
    if ev["rio"] != ctx["expio"]:
        return "iocap:%s:advertised=%d:expected=%d" % (kind, ev["rio"], ctx["expio"])
    if ev["roob"] not in (0, 1) or (ev["roob"] == 1 and not ev["oobdata"]):
        return "oobflag:%s:roob=%s:data=%s" % (kind, ev["roob"], ev["oobdata"])
    fam = "lesc" if ctx["lesc"] else "legacy"
    if ev["family"] != fam or (kind == "legacy" and ev["rauth"] & 8):
        return "family:%s:expected=%s:got=%s:rauth_sc=%d" % (kind, fam, ev["family"], (ev["rauth"] >> 3) & 1)
    if ev["alg"] == ctx["tableonly"] and not ctx["mitm"]:
        return "method:%s:no_mitm_requested:table_used:expected=%s:got=%s" % (fam, exp, ev["alg"])
    return "method:%s:%s:oobf=%d:roob=%d:data=%d:mitm=%d:expected=%s:got=%s" % (
        fam, kind, ev["oobf"], ev["roob"], int(ev["oobdata"]), int(ctx["mitm"]), exp, ev["alg"])


def run_c36(c):
    c.assumptions += ["selection rule = Core Vol 3 Part H 2.3.5.1 as a function of the exchanged Pairing Request / Pairing "
                      "Response fields (Tables 2.6, 2.7, 2.8); advertised IO capability = Table 2.5",
                      "RFU bits of AuthReq are ignored; key size / key distribution fields fixed to valid values in the grid",
                      "configurations that do not compile cannot be bound through the manager; their table cells are bound "
                      "through io_capabilities_matrix directly"]
    vlib.model_check(c, SPECDIR, "IoCapsMC.tla", "IoCapsMC.cfg", workers=2)
    objs = crypto_objects(c)
    configs = c36_configs()
    if c.replay:
        return replay_c36(c, objs)
    matrix = vlib.build(c, "iocaps_matrix", ["sm/iocaps_matrix.cpp"], compiler="clang++")
    exes = build_configs(c, configs, objs)
    for k in configs:
        if exes[cfg_name(k)] is None and k["mitm"] == 0:
            c.finding("build:%s:in=keyboard:out=%d:does_not_compile" % (KINDS[k["kind"]], k["out"]),
                      "%s_security_manager with pairing_keyboard (out=%d) does not compile: this local IO configuration "
                      "cannot be used at all" % (KINDS[k["kind"]], k["out"]), {"config": k, "build_only": True})
    rows = c36_rows(c)
    script = c36_script(rows)
    traces, owner = [], {}
    mt = os.path.join(c.build_dir, "matrix.ndjson")
    rc, out = vlib.run_harness(matrix, [mt])
    if rc != 0:
        raise vlib.ToolFailure("iocaps_matrix failed: " + out[-1000:])
    traces.append(mt)
    owner[mt] = None
    built = [k for k in configs if exes[cfg_name(k)]]
    for k in built:
        tp = run_script(c, exes[cfg_name(k)], "c36_" + cfg_name(k), script)
        traces.append(tp)
        owner[tp] = k
    # a few files per TLC instance would save JVM starts, but one file per configuration keeps replays simple
    verdicts = vlib.validate_parallel(SPECDIR, "IoCapsTrace.tla", "IoCapsTrace.cfg", traces)
    counts = {}
    for tp, v in verdicts.items():
        k = owner[tp]
        evs = vlib.read_ndjson(tp)
        for e in evs:
            counts[e["e"]] = counts.get(e["e"], 0) + 1
        ctx = contexts(v)
        n_exec = sum(1 for e in evs if e["e"] == "Reset") if k else len(evs) - 1
        c.add_traces(n_exec, v.events)
        crash_findings(c, tp, "C36 " + os.path.basename(tp))
        for ln in v.mismatch_lines:
            ev = evs[ln - 1]
            kind = KINDS[k["kind"]] if k else "matrix"
            sig = c36_signature(ev, ctx.get(ln, {}), kind)
            c.finding(sig, "%s in=%s out=%s mitm=%s: row %s is not the Core specification's row (expected %s)"
                      % (kind, k and k["in"], k and k["out"], k and k["mitm"],
                         {x: ev.get(x) for x in ("io", "oobf", "auth", "oobdata", "rsp", "rio", "roob", "rauth", "alg", "family", "legacy", "lesc")},
                         ctx.get(ln)),
                      {"config": k, "event": ev, "prev": evs[ln - 2] if ln >= 2 else None})
        if k and k["kind"] == 2 and k["in"] == 1 and k["out"] == 1 and k["mitm"] == 1:
            c.sample([e for e in evs[:8]])
    c.extra["events_by_action"] = counts
    c.extra["rule"] = ("grid enumerated by checks/sm.py: %d buildable configurations x %d requests (remote IO 0..5,255 x OOB flag x "
                       "local OOB data x AuthReq %s + malformed fields); oracle = IoCaps.tla evaluated by TLC on every row"
                       % (len(built), len(rows), "0..31 + RFU samples" if c.quick else "0..255"))
    c.extra["configs_not_buildable"] = [cfg_name(k) for k in configs if not exes[cfg_name(k)]]
    c.exhaustive = True


def replay_c36(c, objs):
    case = json.load(open(c.replay))["case"]
    k = case["config"]
    if case.get("build_only"):
        exe = build_config(c, k, objs, may_fail=True)
        if exe is None:
            c.finding("build:%s:in=keyboard:out=%d:does_not_compile" % (KINDS[k["kind"]], k["out"]), "still does not compile", case)
        return
    if k is None:
        matrix = vlib.build(c, "iocaps_matrix", ["sm/iocaps_matrix.cpp"], compiler="clang++")
        tp = os.path.join(c.build_dir, "matrix.ndjson")
        vlib.run_harness(matrix, [tp])
    else:
        exe = build_config(c, k, objs)
        ev = case["event"]
        tp = run_script(c, exe, "replay", ["reset %d -1" % int(ev["oobdata"]),
                                           "req %d %d %d %d %d %d" % (ev["io"], ev["oobf"], ev["auth"], ev["maxkey"], ev["idist"], ev["rdist"])])
    v = vlib.validate_trace(SPECDIR, "IoCapsTrace.tla", "IoCapsTrace.cfg", tp)
    evs = vlib.read_ndjson(tp)
    c.add_traces(1, v.events)
    c.sample(evs[:4])
    ctx = contexts(v)
    for ln in v.mismatch_lines:
        kind = KINDS[k["kind"]] if k else "matrix"
        c.finding(c36_signature(evs[ln - 1], ctx.get(ln, {}), kind), "replayed row rejected: %s expected %s" % (evs[ln - 1], ctx.get(ln)), case)


def run(c):
    if c.prop == "C36":
        return run_c36(c)
    raise vlib.ToolFailure("not implemented yet")
