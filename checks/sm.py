"""C32-C36 - security manager (SMP responder): protocol order, key offering, key distribution, pairing status,
pairing method selection.

spec/SecurityManager/IoCaps.tla               Core spec Vol 3 Part H 2.3.5.1 tables 2.5-2.8 (C36 reference definition)
spec/SecurityManager/IoCapsTrace.tla          every Pairing Request/Response pair of the real managers = a table row
spec/SecurityManager/SecurityManager.tla      symbolic-crypto model of the responder with guards G32..G35
spec/SecurityManager/MCSM.tla, MC*.cfg        exhaustive model checking (3 manager kinds x bonding x answer timing)
spec/SecurityManager/SecurityManagerGen.tla   transition cover of the model's state graph -> input scripts
spec/SecurityManager/SecurityManagerTrace.tla trace validation of the recorded calls of the real managers
harness/sm/sm_harness.cpp                     the three real managers with the test toolbox (real AES/uECC), harness-side
                                              central, script controlled user / OOB / bond data base
harness/sm/iocaps_matrix.cpp                  the real io_capabilities_matrix, all six local IO configurations
"""
import json
import os
import shutil
import subprocess
from concurrent.futures import ThreadPoolExecutor

import vlib

PROPS = ["C32", "C33", "C34", "C35", "C36"]

_T = "TLA+ model checking (TLC) + TLC-generated behaviours replayed on the real class + TLC trace validation"
META = {
    "C32": {"text": "SecurityManager.tla (symbolic cryptography; central sends any opcode 0..15 with right/wrong length and "
                    "honest/wrong confirm, random, public key, DHKey check; user answer at any time) is model checked "
                    "exhaustively for the three manager kinds; a transition cover of its state graph is replayed on the real "
                    "legacy/lesc/combined security managers (test toolbox, real AES/ECC) and every call is validated by TLC: "
                    "accepted steps only in protocol order, Srand only after Mrand matched Mconfirm, Eb only after a correct Ea "
                    "(and the user's yes), Pairing Failed returns to idle.",
            "note": "labels are turned into bytes by a harness-side central (wrong = one flipped bit, invalid key = point off the "
                    "curve); no liveness is demanded (a valid step may be refused); trusted: TLC, harness/sm, clang/ASan/UBSan.",
            "technique": _T, "design_ref": "5.9"},
    "C33": {"text": "Same model and behaviours, each extended by find_key probes (through the connection-data interface the link "
                    "layer uses) for every (EDIV,Rand) class - (0,0), a bonded pair, an unknown pair, the pair of the bond created "
                    "on this connection, (0,Rand), (EDIV,0) - with a script controlled bond data base that holds entries of this "
                    "peer and of another device (distinct key values) and stores / erases a (0,0) bond of this peer between the "
                    "probes; guard G33 judges the identity of the offered key: for (0,0) after an exchange whose every "
                    "verification step passed it is the key the reference computation yields for that exchange (also when a "
                    "bond entry exists for (0,0)); otherwise it is exactly the entry the bond data base legitimately holds for "
                    "(EDIV,Rand,this peer).",
            "note": "bond data base is a harness object (application entries + what the manager stores); 'legitimately holds' is "
                    "tracked by the spec (stored by the application or by a verified pairing); the managers read the data base "
                    "only in find_key, so entries are stored at the start and between probes, not between SMP PDUs.",
            "technique": _T, "design_ref": "5.9"},
    "C34": {"text": "Same model and behaviours; while key distribution items are pending (or encryption is on) encryption on / off "
                    "is an input of the generator between any two inputs (output polls in particular), and every behaviour is "
                    "followed by polls with encryption off / on / off / on; guard G34 judges every emitted PDU against the "
                    "encryption state at that call: Encryption Information / Central Identification appear only while encrypted, "
                    "only after a completed pairing, each at most once per pairing.",
            "note": "only the legacy pairing of a manager with bonding_data_base distributes keys.", "technique": _T,
            "design_ref": "5.9"},
    "C35": {"text": "Same model and behaviours; guard G35 on every event: local_device_pairing_status() = authenticated iff the "
                    "completed exchange authenticated the peer (legacy passkey/OOB with matching TK, LESC numeric comparison shown "
                    "and confirmed), unauthenticated iff completed otherwise, no_key iff not completed.",
            "note": "LESC passkey entry / OOB protocols cannot be driven (the managers refuse their PDUs), so a completed LESC "
                    "exchange with these methods is Just-Works shaped.", "technique": _T, "design_ref": "5.9"},
    "C36": {"text": "IoCaps.tla holds Tables 2.5-2.8 of Core Vol 3 Part H 2.3.5.1 (transcribed from the Core specification, sanity "
                    "checked by TLC); for every buildable manager kind x local IO configuration x MITM option x remote IO "
                    "capability 0..5 x OOB flag x local OOB data x AuthReq the Pairing Request is sent to the real manager and "
                    "TLC requires response IO capability, OOB flag and the selected legacy/LESC algorithm to equal the table row "
                    "computed from the exchanged request/response fields.",
            "note": "grid enumerated by the python check (plain grid), oracle evaluated by TLC; MITM rule (neither side requests "
                    "MITM -> Just Works) is part of the Core selection rule and enforced.",
            "technique": "TLA+ reference definition evaluated by TLC on every enumerated argument of the real function",
            "design_ref": "5.9"},
}

KINDS = ["legacy", "lesc", "combined"]
SPECDIR = "SecurityManager"


# ------------------------------------------------------------------------------------------
# building
# ------------------------------------------------------------------------------------------
def crypto_objects(c):
    """reference crypto of /repo/tests/test_tools (C sources), built once per run"""
    objs = []
    for src, extra in (("aes.c", []), ("uECC.c", ["-DuECC_CURVE=uECC_secp256r1"])):
        o = os.path.join(c.build_dir, src[:-2] + ".o")
        cmd = ["gcc", "-O2", "-std=c99", "-w", "-c", os.path.join(vlib.REPO, "tests/test_tools", src), "-o", o] + extra
        p = subprocess.run(cmd, stdout=subprocess.PIPE, stderr=subprocess.STDOUT, universal_newlines=True)
        if p.returncode != 0:
            raise vlib.ToolFailure("cannot build %s: %s" % (src, p.stdout[-2000:]))
        objs.append(o)
    return objs


def cfg_name(k):
    return "sm_%d%d%d%d%d" % (k["kind"], k["in"], k["out"], k["mitm"], k["bond"])


def build_config(c, k, objs, may_fail=False):
    try:
        return vlib.build(c, cfg_name(k), ["sm/sm_harness.cpp", vlib.REPO + "/bluetoe/utility/address.cpp"],
                          compiler="clang++", link=objs,
                          defines=["SM_KIND=%d" % k["kind"], "SM_IN=%d" % k["in"], "SM_OUT=%d" % k["out"],
                                   "SM_MITM=%d" % k["mitm"], "SM_BOND=%d" % k["bond"]])
    except vlib.ToolFailure as e:
        if may_fail:
            return None
        raise


def run_script(c, exe, name, lines):
    sp = vlib.write_lines(os.path.join(c.build_dir, name + ".txt"), lines)
    tp = os.path.join(c.build_dir, name + ".ndjson")
    rc, out = vlib.run_harness(exe, [sp, tp])
    if rc != 0:
        raise vlib.ToolFailure("harness %s failed rc=%d: %s" % (exe, rc, out[-2000:]))
    return tp


def contexts(verdict):
    """<<"CONTEXT", l, json>> lines printed by the trace specs next to a MISMATCH"""
    res = {}
    for line in verdict.out.splitlines():
        line = line.strip()
        if line.startswith('<<"CONTEXT"'):
            t = vlib.parse_tla_value(line)
            if t:
                res[int(t[1])] = json.loads(t[2])
    return res


def crash_findings(c, tp, what):
    for first, evs in vlib.split_executions(tp):
        for e in evs:
            if e.get("e") == "Crash":
                c.finding("crash:%s" % e.get("what"), "%s: crash/sanitizer report while replaying %s" % (what, evs[:-1][-3:]),
                          {"events": evs})


# ------------------------------------------------------------------------------------------
# C36
# ------------------------------------------------------------------------------------------
def c36_configs(kind, keyboard):
    return [{"kind": kind, "in": i, "out": o, "mitm": m} for i in ((0, 1, 2) if keyboard else (0, 1)) for o in (0, 1) for m in (0, 1)]


def c36_rows(c):
    auths = list(range(32)) + [0x2d, 0x48, 0xe4]                   # RFU bits set: ignored by the Core rules
    if not c.quick:
        auths = list(range(256))
    rows = []
    for data in (0, 1):
        for io in range(6):
            for oobf in (0, 1):
                for a in auths:
                    rows.append((data, io, oobf, a, 16, 0, 0))
        rows += [(data, 255, 0, 12, 16, 0, 0), (data, 1, 2, 12, 16, 0, 0), (data, 1, 0, 12, 6, 0, 0),
                 (data, 1, 0, 12, 17, 0, 0), (data, 1, 0, 12, 7, 0, 0), (data, 1, 0, 12, 16, 16, 0), (data, 1, 0, 12, 16, 0, 0x80)]
    return rows


def c36_script(configs, rows):
    lines = []
    for k in configs:
        lines.append("cfg %d %d %d %d" % (k["kind"], k["in"], k["out"], k["mitm"]))
        for (data, io, oobf, a, mk, idist, rdist) in rows:
            lines.append("reset %d" % data)
            lines.append("req %d %d %d %d %d %d" % (io, oobf, a, mk, idist, rdist))
    return lines


def c36_signature(ev, ctx):
    if ev.get("e") == "Matrix":
        return "matrix:in=%d:out=%d:remote=%d:legacy=%s:lesc=%s:lio=%d" % (ev["in"], ev["out"], ev["io"], ev["legacy"], ev["lesc"], ev["lio"])
    kind = KINDS[ev["kind"]]
    exp = ctx.get("expected")
    if exp == "failed":
        return "req:%s:accepted_or_wrong_error:io=%s:oobf=%s:maxkey=%s:idist=%s:rdist=%s:sc=%d" % (
            kind, min(ev["io"], 5), ev["oobf"], ev["maxkey"], ev["idist"], ev["rdist"], (ev["auth"] >> 3) & 1)
    if not ev.get("rsp"):
        return "req:%s:valid_request_refused:err=%s" % (kind, ev.get("oerr"))
    if ev["rio"] != ctx["expio"]:
        return "iocap:%s:advertised=%d:expected=%d" % (kind, ev["rio"], ctx["expio"])
    if ev["roob"] not in (0, 1) or (ev["roob"] == 1 and not ev["oobdata"]):
        return "oobflag:%s:roob=%s:data=%s" % (kind, ev["roob"], ev["oobdata"])
    fam = "lesc" if ctx["lesc"] else "legacy"
    if ev["family"] != fam or (kind == "legacy" and ev["rauth"] & 8):
        return "family:%s:expected=%s:got=%s:rauth_sc=%d" % (kind, fam, ev["family"], (ev["rauth"] >> 3) & 1)
    if ev["alg"] == ctx["tableonly"] and not ctx["mitm"]:
        return "method:%s:no_mitm_requested:table_used:expected=%s:got=%s" % (fam, exp, ev["alg"])
    if ev["alg"] == "oob" and ev["roob"] == 0 and ev["oobdata"]:
        return "method:%s:%s:oob_selected_but_response_oob_flag_0:oobf=%d" % (fam, kind, ev["oobf"])
    return "method:%s:%s:oobf=%d:roob=%d:data=%d:mitm=%d:expected=%s:got=%s" % (
        fam, kind, ev["oobf"], ev["roob"], int(ev["oobdata"]), int(ctx["mitm"]), exp, ev["alg"])


def c36_build(c, objs, kinds=(0, 1, 2)):
    """one binary per manager kind holding all its IO configurations; -> {kind: (exe, keyboard_configs_included)}.
    The LESC managers are built with and without the pairing_keyboard configurations (those do not compile at the
    time of writing); the variant with them is preferred when it builds."""
    def job(kind, keyboard):
        try:
            return vlib.build(c, "iocaps_req_%d%s" % (kind, "" if keyboard else "_nokb"),
                              ["sm/iocaps_req.cpp", vlib.REPO + "/bluetoe/utility/address.cpp"], compiler="clang++", link=objs,
                              defines=["ONLY_KIND=%d" % kind] + ([] if keyboard else ["NO_LESC_KEYBOARD"]))
        except vlib.ToolFailure as e:
            if keyboard and kind != 0:
                c.note("iocaps_req kind=%d with pairing_keyboard does not compile: %s" % (kind, str(e)[-400:].replace("\n", " ")[:300]))
                return None
            raise
    jobs = [(k, True) for k in kinds] + [(k, False) for k in kinds if k != 0]
    with ThreadPoolExecutor(len(jobs)) as ex:
        res = dict(zip(jobs, ex.map(lambda j: job(*j), jobs)))
    out = {}
    for k in kinds:
        out[k] = (res[(k, True)], True) if res[(k, True)] else (res[(k, False)], False)
    return out


def c36_build_findings(c, built):
    for k, (exe, kb) in built.items():
        if not kb:
            c.finding("build:%s:in=keyboard:does_not_compile" % KINDS[k],
                      "%s security manager with pairing_keyboard does not compile (io_capabilities_matrix::"
                      "sm_pairing_request_yes_no needs a member pairing_keyboard lacks): this local IO configuration cannot "
                      "be used at all; its table cells are checked through io_capabilities_matrix only" % KINDS[k],
                      {"build_only": True, "kind": k})


def run_c36(c):
    c.assumptions += ["selection rule = Core Vol 3 Part H 2.3.5.1 as a function of the exchanged Pairing Request / Pairing "
                      "Response fields (Tables 2.6, 2.7, 2.8); advertised IO capability = Table 2.5",
                      "RFU bits of AuthReq are ignored; key size / key distribution fields fixed to valid values in the grid",
                      "configurations that do not compile cannot be bound through the manager; their table cells are bound "
                      "through io_capabilities_matrix directly"]
    vlib.model_check(c, SPECDIR, "IoCapsMC.tla", "IoCapsMC.cfg", workers=2)
    objs = crypto_objects(c)
    if c.replay:
        return replay_c36(c, objs)
    with ThreadPoolExecutor(2) as ex:
        fm = ex.submit(lambda: vlib.build(c, "iocaps_matrix", ["sm/iocaps_matrix.cpp"], compiler="clang++"))
        built = c36_build(c, objs)
        matrix = fm.result()
    c36_build_findings(c, built)
    rows = c36_rows(c)
    traces = []
    mt = os.path.join(c.build_dir, "matrix.ndjson")
    rc, out = vlib.run_harness(matrix, [mt])
    if rc != 0:
        raise vlib.ToolFailure("iocaps_matrix failed: " + out[-1000:])
    nconf = 0
    for k, (exe, kb) in sorted(built.items()):
        configs = c36_configs(k, kb)
        nconf += len(configs)
        for part, cs in enumerate(vlib.chunks(configs, 1 if c.quick else 3)):
            traces.append(run_script(c, exe, "c36_%d_%d" % (k, part), c36_script(cs, rows)))
    with open(traces[0], "a") as f:                 # the 35 matrix cells ride along with the first trace (one JVM less)
        f.write(open(mt).read())
    verdicts = vlib.validate_parallel(SPECDIR, "IoCapsTrace.tla", "IoCapsTrace.cfg", traces)
    counts = {}
    for tp, v in verdicts.items():
        evs = vlib.read_ndjson(tp)
        for e in evs:
            counts[e["e"]] = counts.get(e["e"], 0) + 1
        ctx = contexts(v)
        c.add_traces(sum(1 for e in evs if e["e"] != "Reset"), v.events)
        crash_findings(c, tp, "C36 " + os.path.basename(tp))
        for ln in v.mismatch_lines:
            ev = evs[ln - 1]
            c.finding(c36_signature(ev, ctx.get(ln, {})),
                      "row %s is not the Core specification's row (expected %s)"
                      % ({x: ev.get(x) for x in ("kind", "in", "out", "mitm", "io", "oobf", "auth", "oobdata", "rsp", "rio", "roob",
                                                 "rauth", "alg", "family", "legacy", "lesc", "lio") if x in ev}, ctx.get(ln)),
                      {"event": ev})
        c.sample([e for e in evs if e["e"] != "Reset"][:3])
    c.extra["events_by_action"] = counts
    c.extra["rule"] = ("grid enumerated by checks/sm.py: %d buildable manager configurations (kind x input x output x MITM option) x "
                       "%d requests (remote IO 0..5,255 x OOB flag x local OOB data x AuthReq %s + malformed fields) + 35 cells of "
                       "io_capabilities_matrix; oracle = IoCaps.tla evaluated by TLC on every row"
                       % (nconf, len(rows), "0..31 + RFU samples" if c.quick else "0..255"))
    c.extra["keyboard_configs_buildable"] = {KINDS[k]: kb for k, (e, kb) in built.items()}
    c.exhaustive = True


def replay_c36(c, objs):
    case = json.load(open(c.replay))["case"]
    if case.get("build_only"):
        c36_build_findings(c, c36_build(c, objs, kinds=(case["kind"],)))
        return
    ev = case["event"]
    if ev["e"] == "Matrix":
        matrix = vlib.build(c, "iocaps_matrix", ["sm/iocaps_matrix.cpp"], compiler="clang++")
        tp = os.path.join(c.build_dir, "matrix.ndjson")
        vlib.run_harness(matrix, [tp])
    else:
        exe, kb = c36_build(c, objs, kinds=(ev["kind"],))[ev["kind"]]
        tp = run_script(c, exe, "replay", ["cfg %d %d %d %d" % (ev["kind"], ev["in"], ev["out"], int(ev["mitm"])),
                                           "reset %d" % int(ev["oobdata"]),
                                           "req %d %d %d %d %d %d" % (ev["io"], ev["oobf"], ev["auth"], ev["maxkey"], ev["idist"], ev["rdist"])])
    v = vlib.validate_trace(SPECDIR, "IoCapsTrace.tla", "IoCapsTrace.cfg", tp)
    evs = vlib.read_ndjson(tp)
    c.add_traces(1, v.events)
    c.sample(evs[:4])
    ctx = contexts(v)
    for ln in v.mismatch_lines:
        c.finding(c36_signature(evs[ln - 1], ctx.get(ln, {})), "replayed row rejected: %s expected %s" % (evs[ln - 1], ctx.get(ln)), case)


# ------------------------------------------------------------------------------------------
# C32 - C35
# ------------------------------------------------------------------------------------------
def K(kind, i, o, bond, mitm=0):
    return {"kind": kind, "in": i, "out": o, "mitm": mitm, "bond": bond}


QUICK_CONFIGS = [K(0, 2, 1, 1), K(1, 1, 1, 0), K(1, 0, 0, 1), K(2, 1, 1, 1)]
THOROUGH_CONFIGS = ([K(0, i, o, b) for i in (0, 1, 2) for o in (0, 1) for b in (0, 1)] +
                    [K(kind, i, o, b) for kind in (1, 2) for i in (0, 1) for o in (0, 1) for b in (0, 1)] +
                    [K(0, 2, 1, 1, mitm=1), K(1, 1, 1, 0, mitm=1)])

# inputs of the generator model: requests <<io, oob flag, AuthReq, max key size, initiator / responder key distribution>>
LEGACY_REQS = [(2, 0, 4, 16, 0, 0), (0, 0, 4, 16, 0, 0), (3, 0, 0, 16, 0, 0), (3, 1, 5, 16, 7, 7)]
LESC_REQS = [(4, 0, 12, 16, 0, 0), (2, 0, 12, 16, 0, 0), (3, 0, 8, 16, 0, 0), (1, 1, 13, 16, 7, 7)]
BAD_REQS = [(5, 0, 12, 16, 0, 0), (1, 0, 12, 6, 0, 0)]
# PDUs <<opcode, length class 0 ok / 1 short / 2 long, label 0 honest / 1 wrong (confirm: 1 wrong TK, 2 flipped bit)>>
PROTOCOL_PDUS = [(3, 0, 0), (3, 0, 1), (3, 1, 0), (4, 0, 0), (4, 0, 1), (4, 2, 0), (12, 0, 0), (12, 0, 1), (12, 1, 0),
                 (13, 0, 0), (13, 0, 1), (13, 1, 0)]
# Probes appended to every generated behaviour (the generator's alphabet has no find / db inputs). C33 and C34 have
# their own: C33 asks for every (EDIV,Rand) class, then lets the application store a bond under (0,0) for this peer
# (that is where LESC bonds live) and asks again - "pairing completed on this connection AND a bond entry exists" -
# and erases it again; C34 polls with encryption (off /) on / off / on, whatever the state the behaviour ended in.
SUFFIX = ["find 0", "enc 1", "poll", "poll", "poll", "find 0", "find 3"]
SUFFIXES = {"C33": ["find 0", "find 1", "find 2", "find 3", "find 4", "find 5", "db 0 0 1", "find 0", "db 0 0 0", "find 0"],
            "C34": ["poll", "enc 1", "poll", "enc 0", "poll", "enc 1", "poll", "poll"]}
# bond data base at the start of every execution: this peer has a bond under slot 1, another device has one under
# every slot (the data base is not read by the managers before find_key, so what it holds only matters for the probes)
PRE_THIS, PRE_OTHER = [1], [0, 1, 2, 3, 4, 5]


# several exchanges on one connection: after the first completed exchange the generator allows depth2() further inputs
# (refused re-request + a Just Works / passkey / OOB legacy exchange = 4, refused re-request + a LESC exchange = 6)
SEGS = 1


def depth2(c, k):
    """inputs allowed after the first completed exchange of a behaviour, per manager kind"""
    if c.quick:
        return {0: 4, 1: 0, 2: 4}[k["kind"]]        # a LESC-only manager needs 6 for a second complete exchange: thorough tier
    return {0: 4, 1: 6, 2: 6}[k["kind"]]


def suffix(prop):
    return SUFFIXES.get(prop, SUFFIX)


def mask(slots):
    return sum(1 << x for x in slots)


def gen_inputs(c, k):
    """input alphabet of the generator model for configuration k -> (requests, pdus, syncs, oobs, finds, enc inputs?, depth)"""
    reqs = list(BAD_REQS[:1] if c.quick else BAD_REQS)
    if k["kind"] != 1:
        reqs += LEGACY_REQS
    if k["kind"] != 0:
        reqs += LESC_REQS
    if k["kind"] == 1:
        reqs += LEGACY_REQS[2:3]
    nc = k["kind"] != 0 and k["in"] == 1 and k["out"] == 1
    if c.quick:
        # every behaviour is followed by SUFFIX (find / encrypt / poll probes), so the quick generator leaves those inputs out
        pdus = list(PROTOCOL_PDUS) + [(11, 0, 0), (1, 1, 0)]
        syncs = [-1, 0, 1] if (nc and k["kind"] == 1) else [-1]
        oobs = ["TRUE"] if k["kind"] == 0 else ["FALSE"]     # legacy OOB needs local data; LESC OOB is reached by the request's flag
        # (a completed exchange extends the bound by depth2() inputs, see SecurityManagerGen)
        return reqs, pdus, syncs, oobs, [], False, {0: 6, 1: 8, 2: 7}[k["kind"]]
    # thorough: every opcode 0..15, more length variants, encryption changes as inputs, both OOB settings, all answer timings
    pdus = list(PROTOCOL_PDUS) + [(3, 0, 2), (3, 2, 0), (4, 1, 0), (12, 2, 0), (13, 2, 0), (1, 1, 0), (1, 2, 0)]
    pdus += [(op, 0, 0) for op in (0, 2, 5, 6, 7, 8, 9, 10, 11, 14, 15)]
    return reqs, pdus, ([-1, 0, 1] if nc else [-1]), ["FALSE", "TRUE"], [], True, {0: 7, 1: 8, 2: 8}[k["kind"]]


def tla_set(tuples):
    return "{ " + ", ".join("<<" + ",".join(str(x) for x in t) + ">>" for t in tuples) + " }"


def tla_cfg(k, oob, sync):
    return ('[kind |-> "%s", in |-> %d, out |-> %d, mitm |-> %s, bond |-> %s, oob |-> %s, sync |-> %d, pre |-> {%s}]'
            % (KINDS[k["kind"]], k["in"], k["out"], "TRUE" if k["mitm"] else "FALSE", "TRUE" if k["bond"] else "FALSE", oob, sync,
               ", ".join(str(x) for x in PRE_THIS)))


def generate_behaviours(c, specdir, configs):
    """one TLC run: transition cover for all configurations -> {cfg_name: [behaviour]} (behaviour[0] = reset op)"""
    cfgs, reqcases, depthcases, depth2cases = [], [], [], []
    pdus = finds = encs = None
    for k in configs:
        reqs, pdus, syncs, oobs, finds, encs, depth = gen_inputs(c, k)
        sel = 'c.kind = "%s" /\\ c.in = %d /\\ c.out = %d' % (KINDS[k["kind"]], k["in"], k["out"])
        cfgs += [tla_cfg(k, o, s) for o in oobs for s in syncs]
        reqcases.append("%s -> %s" % (sel, tla_set(reqs)))
        depthcases.append("%s -> %d" % (sel, depth))
        depth2cases.append("%s -> %d" % (sel, depth2(c, k)))
    name = "GenRun"
    with open(os.path.join(specdir, name + ".tla"), "w") as f:
        f.write("---- MODULE %s ----\nEXTENDS SecurityManagerGen\nRConfigs == {\n  %s }\nRReqsOf(c) == CASE %s\n  [] OTHER -> {}\n"
                "RDepthOf(c) == CASE %s\n  [] OTHER -> 0\nRDepth2Of(c) == CASE %s\n  [] OTHER -> 0\nRPdus == %s\n====\n"
                % (name, ",\n  ".join(cfgs), "\n  [] ".join(reqcases), "\n  [] ".join(depthcases), "\n  [] ".join(depth2cases),
                   tla_set(pdus)))
    cfg = os.path.join(specdir, name + ".cfg")
    with open(cfg, "w") as f:
        f.write('CONSTANTS GConfigs <- RConfigs GReqsOf <- RReqsOf GDepthOf <- RDepthOf GDepth2Of <- RDepth2Of GPdus <- RPdus GFinds = {%s} GEnc = %s GSegs = %d\n'
                '  Enforce <- AllProps Configs <- NoRequests Requests <- NoRequests Opcodes <- NoOps LenClasses <- NoOps DbSlots <- NoOps\n'
                'SPECIFICATION GSpec\nVIEW GView\nACTION_CONSTRAINT EmitEdge\nCHECK_DEADLOCK FALSE\n'
                % (", ".join(str(x) for x in finds), "TRUE" if encs else "FALSE", SEGS))
    behs = vlib.generate(c, specdir, name + ".tla", cfg, workers=1, timeout=2400)
    res, seen = {cfg_name(k): [] for k in configs}, set()
    for b in behs:
        t = json.dumps(b)
        if t in seen:
            continue
        seen.add(t)
        r = b[0]                        # ["reset", oob, sync, kind, in, out, mitm, bond]
        key = "sm_%d%d%d%d%d" % (r[3], r[4], r[5], r[6], r[7])
        res[key] += variants([r[:3]] + b[1:])
    return res


def variants(b):
    """a request the model accepted right after a completed exchange carries a trailing 1 (SecurityManagerGen): the script
    line gets the retry flag - the harness-side central repeats that request once if it is answered with Pairing Failed"""
    return [[(op[:7] + ([1] if len(op) > 7 and op[7] else [])) if op[0] == "req" else op for op in b]]


def script_of(b, prop):
    lines = [" ".join(str(x) for x in op) for op in b]
    lines[0] += " %d %d" % (mask(PRE_THIS), mask(PRE_OTHER))          # reset <oob> <sync> <bonds of this peer> <of another peer>
    return lines + suffix(prop)


def out_kind(ev):
    if "olen" not in ev:
        return "-"
    if ev["olen"] == 0:
        return "none"
    return {(5, 2): "failed", (2, 7): "response", (3, 17): "confirm", (4, 17): "random", (12, 65): "pubkey", (13, 17): "dhkey",
            (6, 17): "ltk", (7, 11): "ediv_rand"}.get((ev["oop"], ev["olen"]), "other")


def sm_signature(prop, ev, ctx, k):
    """stable description of a rejected event: event kind + the spec state (printed by TLC) it was rejected in"""
    kind, e, o = KINDS[k["kind"]], ev.get("e"), out_kind(ev)
    if e == "Crash":
        return "crash:%s" % ev.get("what")
    if prop == "C32":
        if o == "dhkey":        # the peripheral's DHKey check Eb was sent although the guard does not allow it
            where = "phase=lesc_rand" if ctx.get("phase") == "lesc_rand" else "stale_answer:phase=%s" % ctx.get("phase")
            return "%s:dhkey_unverified:%s:ea=%s:user=%s:label=%s" % (e, where, ctx.get("ea"), ctx.get("user"), ev.get("label", "-"))
        if o == "failed" and ev.get("st") != "idle":
            return "%s:failed_but_not_idle:st=%s" % (e, ev.get("st"))
        return "%s:op=%s:lc=%s:label=%s:out=%s:phase=%s:mconf=%s:ea=%s:user=%s" % (
            e, ev.get("op", "-"), ev.get("lc", "-"), ev.get("label", "-"), o, ctx.get("phase"), ctx.get("mconf"), ctx.get("ea"), ctx.get("user"))
    if prop == "C33":
        return "Find:which=%s:kid=%s:phase=%s:pairedOk=%s:fam=%s:dbsame=%s:bond=%s" % (
            ev.get("which"), ev.get("kid"), ctx.get("phase"), ctx.get("pairedOk"), ctx.get("fam"), ev.get("dbsame"),
            "app" if ev.get("which") in ctx.get("pre", []) else "lesc" if ctx.get("dbLesc") and ev.get("which") == 0
            else "new" if ctx.get("dbNew") and ev.get("which") == 3 else "none")
    if prop == "C34":
        return "%s:%s:enc=%s:budget=%s:phase=%s" % (e, o, ctx.get("enc"), "+".join(sorted(ctx.get("budget", []))), ctx.get("phase"))
    return "status:%s:%s:alg=%s:user=%s:shown=%s:reported=%s:at=%s:%s" % (
        kind, ctx.get("fam"), ctx.get("alg"), ctx.get("user"), ctx.get("shown"), ev.get("lstat"), e, o)


def validate_sm(c, traces, prop):
    with ThreadPoolExecutor(max(1, min(len(traces), vlib.NCPU // 2))) as ex:
        res = list(ex.map(lambda p: vlib.validate_trace(SPECDIR, "SecurityManagerTrace.tla", "Trace.cfg", p, env={"PROP": prop}), traces))
    return dict(zip(traces, res))


def report_sm(c, k, tp, v, counts):
    execs = vlib.split_executions(tp)
    ctx = contexts(v)
    c.add_traces(len(execs), v.events)
    for first, evs in execs:
        for e in evs:
            key = e["e"] + (":" + out_kind(e) if "olen" in e else "")
            counts[key] = counts.get(key, 0) + 1
    for ln in v.mismatch_lines:
        first, evs = [x for x in execs if x[0] <= ln][-1]
        ev = evs[ln - first]
        sig = sm_signature(c.prop, ev, ctx.get(ln, {}), k)
        ops = replay_ops(evs[:ln - first + 1])
        c.finding(sig, "%s in=%d out=%d bond=%d: after %s the call %s is not a step of SecurityManager with guard %s (spec state %s)"
                  % (KINDS[k["kind"]], k["in"], k["out"], k["bond"], ops[:-1], {x: ev[x] for x in ev if x != "out"}, c.prop, ctx.get(ln)),
                  {"config": k, "script": ops})


def replay_ops(evs):
    ops = []
    for ev in evs:
        e = ev["e"]
        if e == "Reset":
            ops.append("reset %d %d %d %d" % (int(ev["oob"]), ev["sync"], mask(ev["pre"]), mask(ev["prex"])))
        elif e == "Req":
            ops.append("req %d %d %d %d %d %d" % (ev["io"], ev["oobf"], ev["auth"], ev["maxkey"], ev["idist"], ev["rdist"]))
        elif e == "Pdu":
            ops.append("pdu %d %d %d" % (ev["op"], ev["lc"], ev["label"]))
        elif e == "Poll":
            ops.append("poll")
        elif e == "User":
            ops.append("user %d" % int(ev["answer"]))
        elif e == "Enc":
            ops.append("enc %d" % int(ev["on"]))
        elif e == "Find":
            ops.append("find %d" % ev["which"])
        elif e == "Db":
            ops.append("db %d %d %d" % (ev["peer"], ev["slot"], int(ev["on"])))
    return ops


def run_sm(c):
    c.assumptions += ["symbolic cryptography: a wrong value never verifies (wrong = one flipped bit / confirm for another TK / "
                      "point off the curve), an honest value is what the reference toolbox computes",
                      "the application may answer a numeric comparison question at any time after it was asked (it is handed a "
                      "pairing_yes_no_response& it may store)",
                      "link layer behaviour emulated as in link_layer.hpp: find_key on LL_ENC_REQ, is_encrypted()/pairing_status() "
                      "on encryption changes, l2cap_output polled at any time",
                      "bond data base = harness object (application side): bonds of this peer / of another device under any "
                      "(EDIV,Rand) class, stored and erased by the script, each with its own key value; it is read by the managers "
                      "only in find_key; security toolbox = tests/security_manager/test_sm.hpp"]
    objs = crypto_objects(c)
    if c.replay:
        return replay_sm(c, objs)
    configs = QUICK_CONFIGS if c.quick else THOROUGH_CONFIGS
    specdir = os.path.join(c.build_dir, "spec")
    shutil.copytree(os.path.join(vlib.SPEC, SPECDIR), specdir)
    mc_cfgs = ["MCq.cfg" if c.quick else "MC.cfg"] + ([] if c.quick or c.prop != "C32" else ["MC_track.cfg"])
    with ThreadPoolExecutor(12) as ex:
        f_gen = ex.submit(generate_behaviours, c, specdir, configs)
        f_mc = [ex.submit(vlib.model_check, c, SPECDIR, "MCSM.tla", cfg, workers=4, timeout=2400, coverage=not c.quick) for cfg in mc_cfgs]
        f_build = [ex.submit(build_config, c, k, objs) for k in configs]
        exes = [f.result() for f in f_build]
        gen = f_gen.result()
        behs = [gen[cfg_name(k)] for k in configs]
        for f in f_mc:
            f.result()
    jobs = []
    for k, exe, bs in zip(configs, exes, behs):
        c.note("%s: %d behaviours (transition cover), %d inputs" % (cfg_name(k), len(bs), sum(len(b) for b in bs)))
        c.sample({"config": k, "behaviour": bs[len(bs) // 2]}, limit=8)
        nparts = max(1, min(4, sum(len(b) + len(suffix(c.prop)) for b in bs) // (25000 if c.quick else 60000)))
        for i, part in enumerate(vlib.chunks(bs, nparts)):
            jobs.append((k, exe, "sm_%s_%d" % (cfg_name(k), i), part))
    with ThreadPoolExecutor(8) as ex:
        traces = list(ex.map(lambda j: run_script(c, j[1], j[2], [l for b in j[3] for l in script_of(b, c.prop)]), jobs))
    owner = {tp: j[0] for tp, j in zip(traces, jobs)}
    verdicts = validate_sm(c, traces, c.prop)
    counts = {}
    for tp, v in verdicts.items():
        report_sm(c, owner[tp], tp, v, counts)
    c.extra["events_by_action"] = counts
    c.extra["configs"] = [cfg_name(k) for k in configs]
    c.extra["rule"] = ("behaviours = for every reachable state of SecurityManager (all guards on, depth bound %d) its shortest input "
                       "sequence followed by each input (transition cover), each followed by the probes %s"
                       % (gen_inputs(c, configs[-1])[6], suffix(c.prop)))
    c.exhaustive = False


def replay_sm(c, objs):
    case = json.load(open(c.replay))["case"]
    k = case["config"]
    with ThreadPoolExecutor(2) as ex:                  # the design-level check is part of every run (evidence: states)
        f = ex.submit(vlib.model_check, c, SPECDIR, "MCSM.tla", "MCq.cfg", workers=4, timeout=2400, coverage=False)
        exe = build_config(c, k, objs)
        f.result()
    tp = run_script(c, exe, "replay", case["script"])
    v = vlib.validate_trace(SPECDIR, "SecurityManagerTrace.tla", "Trace.cfg", tp, env={"PROP": c.prop})
    c.sample(vlib.read_ndjson(tp)[:12])
    report_sm(c, k, tp, v, {})


def run(c):
    if c.prop == "C36":
        return run_c36(c)
    return run_sm(c)
