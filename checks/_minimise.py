"""Shared helper of checks/csc.py and checks/bootloader.py (not a check itself: the registry skips `_*.py`).

Stable signatures for trace-validation mismatches.  A mismatch is (ops of one execution, index of the op whose
event the property-level spec could not explain).  The failing history is *minimised* with the real pipeline
(harness + TLC): all order-preserving subsets of the ops before the failing op are executed, each followed by the
failing op, in one batch; the shortest one that is still rejected at exactly its last event is the minimal case.
Its event classes (given by the check's `classify`) are turned into the signature by the check's `sig_of`.  Other failing executions
whose failing event has the same class and whose history contains the minimal history as a subsequence are
attributed to the same signature without further runs; the rest is minimised in the next round.
The verdict (which event is a mismatch) is always TLC's; python only selects and labels cases."""
import itertools


class Failure:
    def __init__(self, ops, events, k, ctx=None):
        """ops: script lines of the execution without the leading 'reset'; events: its trace events (events[0] is
        the Reset event); k: index into events of the rejected event (the event of ops[k-1]); ctx: opaque"""
        self.ops = ops[:k]
        self.events = events[:k + 1]
        self.k = k
        self.ctx = ctx
        self.classes = None


def _subsets(n, cap):
    """index tuples of order-preserving subsets of range(n), small ones first"""
    if n <= cap:
        for size in range(0, n + 1):
            for s in itertools.combinations(range(n), size):
                yield s
    else:
        for size in range(0, 4):
            for s in itertools.combinations(range(n), size):
                yield s


def _is_subsequence(small, big):
    it = iter(big)
    return all(any(x == y for y in it) for x in small)


def attribute(failures, run_batch, classify, sig_of, max_rounds=8, cap=9, limit=700):
    """failures: list of Failure.  run_batch(list of ops-lists) -> list of (events, first_mismatch_index or None)
    per case (events[0] is Reset).  classify(event) -> short class string.
    Returns list of (signature, minimal_ops, minimal_events, [failures attributed])."""
    for f in failures:
        f.classes = [classify(e) for e in f.events[1:]]
    rest = sorted(failures, key=lambda f: (len(f.ops), f.classes))
    out = []
    rounds = 0
    while rest:
        rep = rest[0]
        rounds += 1
        if rounds > max_rounds:
            sig = "unminimised:" + sig_of(rep.classes[-1:])
            same = [f for f in rest if f.classes[-1] == rep.classes[-1]]
            out.append((sig, rep.ops, rep.events, same))
            rest = [f for f in rest if f.classes[-1] != rep.classes[-1]]
            continue
        prior, last = rep.ops[:-1], rep.ops[-1]
        cands = []
        for s in _subsets(len(prior), cap):
            cands.append([prior[i] for i in s] + [last])
            if len(cands) >= limit:
                break
        cands.append(list(rep.ops))
        best = None
        for ops, (events, mm) in zip(cands, run_batch(cands)):
            if mm is not None and mm == len(ops) and len(events) > mm:
                cl = [classify(e) for e in events[1:mm + 1]]
                if cl[-1] != rep.classes[-1]:
                    continue                       # fails, but differently: not a reduction of this failure
                if best is None or len(ops) < len(best[0]):
                    best = (ops, events[:mm + 1], cl)
        if best is None:                           # not reproducible in isolation (should not happen): keep as is
            best = (rep.ops, rep.events, rep.classes)
        sig = sig_of(best[2])
        mine = [f for f in rest if f is rep or (f.classes[-1] == best[2][-1] and _is_subsequence(best[2][:-1], f.classes[:-1]))]
        ids = set(id(f) for f in mine)
        rest = [f for f in rest if id(f) not in ids]
        out.append((sig, best[0], best[1], mine))
    return out
