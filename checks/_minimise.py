"""Shared helper of checks/csc.py and checks/bootloader.py (not a check itself: the registry skips `_*.py`).

Stable signatures for trace-validation mismatches.  A mismatch is (ops of one execution, index of the op whose
event the property-level spec could not explain).  The failing history is *minimised* with the real pipeline
(harness + TLC): all order-preserving subsets of the ops before the failing op are executed, each followed by the
failing op, in one batch; the shortest one that is still rejected at exactly its last event is the minimal case.
Its event classes (given by the check's `classify`) are turned into the signature by the check's `sig_of`.  Other failing executions
whose failing event has the same class and whose history contains the minimal history as a subsequence are
attributed to the same signature without further runs; the rest is minimised in the next round.
The verdict (which event is a mismatch) is always TLC's; python only selects and labels cases."""
import itertools


class Failure:
    def __init__(self, ops, events, k, ctx=None):
        """ops: script lines of the execution without the leading 'reset'; events: its trace events (events[0] is
        the Reset event); k: index into events of the rejected event (the event of ops[k-1]); ctx: opaque"""
        self.ops = ops[:k]
        self.events = events[:k + 1]
        self.k = k
        self.ctx = ctx
        self.classes = None


def _subsets(n, cap):
    """index tuples of order-preserving subsets of range(n), small ones first"""
    if n <= cap:
        for size in range(0, n + 1):
            for s in itertools.combinations(range(n), size):
                yield s
    else:
        for size in range(0, 4):
            for s in itertools.combinations(range(n), size):
                yield s


def _is_subsequence(small, big):
    it = iter(big)
    return all(any(x == y for y in it) for x in small)


def attribute(failures, run_batch, classify, sig_of, max_rounds=8, cap=9, limit=600):
    """failures: list of Failure.  run_batch(list of ops-lists) -> list of (events, first_mismatch_index or None)
    per case (events[0] is Reset).  classify(event) -> short class string.
    Each round minimises one representative (the shortest execution) per class of rejected event, all in one batch.
    Returns list of (signature, minimal_ops, minimal_events, [failures attributed])."""
    for f in failures:
        f.classes = [classify(e) for e in f.events[1:]]
    rest = sorted(failures, key=lambda f: (len(f.ops), f.classes))
    out = []
    rounds = 0
    while rest:
        rounds += 1
        reps = {}
        for f in rest:
            reps.setdefault(f.classes[-1], f)
        if rounds > max_rounds:
            for cls, rep in reps.items():
                out.append(("unminimised:" + sig_of(rep.classes[-1:]), rep.ops, rep.events, [f for f in rest if f.classes[-1] == cls]))
            break
        cands, owner = [], []
        for cls, rep in reps.items():
            prior, last = rep.ops[:-1], rep.ops[-1]
            n = 0
            for sub in _subsets(len(prior), cap):
                cands.append([prior[i] for i in sub] + [last])
                owner.append(cls)
                n += 1
                if n >= limit:
                    break
            cands.append(list(rep.ops))
            owner.append(cls)
        best = {}
        for ops, cls, (events, mm) in zip(cands, owner, run_batch(cands)):
            if mm is not None and mm == len(ops) and len(events) > mm:
                cl = [classify(e) for e in events[1:mm + 1]]
                if cl[-1] != cls:
                    continue                       # fails, but differently: not a reduction of this failure
                if cls not in best or len(ops) < len(best[cls][0]):
                    best[cls] = (ops, events[:mm + 1], cl)
        taken = set()
        for cls, rep in reps.items():
            b = best.get(cls) or (rep.ops, rep.events, rep.classes)   # not reproducible in isolation: keep as is
            mine = [f for f in rest if id(f) not in taken and
                    (f is rep or (f.classes[-1] == cls and _is_subsequence(b[2][:-1], f.classes[:-1])))]
            taken.update(id(f) for f in mine)
            out.append((sig_of(b[2]), b[0], b[1], mine))
        rest = [f for f in rest if id(f) not in taken]
    return out
