"""C39 - the bootloader only touches white-listed memory.

spec/Bootloader/Bootloader.tla        property-level judge of every handler call (white list, flashed content, checksum chain)
spec/Bootloader/MCBootloader.tla      bounded model: TLC shows that the per-call judgement implies the global property
spec/Bootloader/BootloaderGen.tla     environment generator (control point / data writes, notifications, flash completion)
spec/Bootloader/BootloaderTrace.tla   trace validation of the recorded calls of the real controller
harness/bootloader                    real bootloader::controller<recording handler, white_list<...>, PageSize>
"""
import json
import os
from concurrent.futures import ThreadPoolExecutor

import vlib
from checks import _minimise

PROPS = ["C39"]
META = {"C39": {
    "text": "Bootloader.tla judges every call the bootloader makes into the user handler (flash, read back, checksum) "
            "against the white list, the client's bytes/addresses and the announced checksum chain; TLC shows on a "
            "bounded model that this per-call judgement keeps all touched memory inside the white list and the device "
            "content equal to the client's writes. TLC-generated environment behaviours (all sequences over a boundary "
            "alphabet, Start Flash families with data writes crossing pages / flush / progress / interfering "
            "procedures, a second Start Flash racing with running flashes, multi-chunk Read procedures and running flashes with "
            "the application serving indications/progress while further control point writes of every opcode - accepted and "
            "refused - arrive between the chunks, random wide ones) plus the grid opcode 0..10,0xFF x length 0..20 are replayed on the real "
            "bootloader::controller with a recording handler for several page sizes and region lists; control point "
            "values live in exact-size heap buffers under ASan; TLC validates every recorded call.",
    "note": "The controller is driven through its public write/read functions (the functions bootloader_service binds to "
            "the characteristics), not through ATT. Results (accept/reject) are not prescribed, only effects are judged. "
            "run()/reset() are recorded but not judged against the white list (not part of the statement). Address "
            "space and page sizes are small (4, 16); addresses above 2^29 are saturated. Trusted: TLC, harness, g++/ASan.",
    "technique": "TLA+ model checking (TLC) + TLC-generated behaviours replayed on the real class + TLC trace validation",
    "design_ref": "5.10"}}

# name -> (page size, [(start, end-exclusive)..])
CONFIGS = {
    "p4_two":       (4, [(8, 16), (32, 40)]),
    "p4_unaligned": (4, [(10, 17)]),
    "p16_two":      (16, [(32, 64), (96, 112)]),
    "p4_adjacent":  (4, [(8, 16), (16, 24)]),
}
ASIZE = 8
OPNAMES = {0: "getversion", 1: "getcrc", 2: "getsizes", 3: "startflash", 4: "stopflash", 5: "flush", 6: "start", 7: "reset", 8: "read"}
OPLEN = {0: 1, 2: 1, 4: 1, 5: 1, 7: 1, 3: 1 + ASIZE, 6: 1 + ASIZE, 1: 1 + 2 * ASIZE, 8: 1 + 2 * ASIZE}
TRACE_CFG = ("CONSTANTS Regions <- TraceRegions  PageSize <- TracePageSize  AddrSize <- TraceAddrSize\n"
             "SPECIFICATION TSpec\nINVARIANTS OnlyWhiteListed ChangesInsideWhiteList\nCHECK_DEADLOCK FALSE\n")


def le(a):
    return [(a >> (8 * i)) & 0xff for i in range(ASIZE)]


def script_of(beh):
    """abstract behaviour of BootloaderGen -> script lines (without 'reset')"""
    out, k = [], 0
    for op in beh:
        if op[0] == "cp":
            o, ln, a1, a2 = op[1:5]
            b = ([o] + le(max(a1, 0)) + le(max(a2, 0)) + [0xEE] * 8)[:ln]
            out.append(" ".join(["cp", str(ln)] + [str(x) for x in b]))
        elif op[0] == "data":
            b = [16 + ((k + i) * 5) % 200 for i in range(op[1])]
            k += op[1]
            out.append(" ".join(["data", str(op[1])] + [str(x) for x in b]))
        else:
            out.append(" ".join(str(x) for x in op))
    return out


def gen_cfg(c, name, cfg, depth, mode, leaf):
    page, regs = CONFIGS[cfg]
    return vlib.write_cfg(c, name, "CONSTANTS RegionCodes = {%s}  PageSize = %d  AddrSize = %d  D = %d  Mode = \"%s\"  K = %d\n"
                          "SPECIFICATION GSpec\nINVARIANTS %s\nCHECK_DEADLOCK FALSE\n"
                          % (",".join(str(a * 1000 + b) for a, b in regs), page, ASIZE, depth, mode, 1 if c.quick else 2,
                             "EmitLeaf" if leaf else "Emit"))


def grid(cfg):
    """python enumerated (plain grid, see README): every opcode 0..10,0xFF x every length 0..20, from the fresh state
    and inside a flash session"""
    page, regs = CONFIGS[cfg]
    lo, hi = regs[0]
    cases = []
    for o in list(range(11)) + [255]:
        for ln in range(21):
            for a1, a2 in ((lo, lo + 2), (hi - 1, hi + 1)):
                cp = ["cp", o, ln, a1, a2]
                cases.append([cp, ["rcp"], ["rdata", 3]])
                cases.append([["cp", 3, 1 + ASIZE, lo, 0], ["data", 1], cp, ["data", page], ["progress"]])
    return cases


# ---------------------------------------------------------------------------------------------------
# labels for signatures.  python never decides a verdict: the rejected step and the violated rule ("why") come from
# TLC (BootloaderTrace.tla prints <<"WHY", l, rule>> next to <<"MISMATCH", l>>); python names the inputs.
def make_classifier(cfg):
    page, regs = CONFIGS[cfg]

    def ac(a):
        for lo, hi in regs:
            if lo <= a < hi:
                return "inside"
        for lo, hi in regs:
            if a == hi:
                return "end"
            if a == lo - 1:
                return "first-1"
            if a == hi + 1:
                return "end+1"
        return "out"

    def addr(b, i):
        return sum(x << (8 * j) for j, x in enumerate(b[i:i + ASIZE]))

    def inp(e, b):
        if e == "cp":
            if not b:
                return "cp(empty)"
            o, name = b[0], OPNAMES.get(b[0], "unknown")
            if o not in OPLEN:
                return "cp(unknown)"
            if len(b) != OPLEN[o]:
                return "cp(%s,%s)" % (name, "short" if len(b) < OPLEN[o] else "long")
            if o == 3:
                return "cp(startflash,%s)" % ac(addr(b, 1))
            return "cp(%s)" % name
        return "%s()" % e

    def classify(ev):
        e = ev.get("e")
        if e == "Crash":
            w = ev.get("op", "?").split()
            i = inp(w[0], [int(x) for x in w[2:]]) if w[0] in ("cp", "data") else w[0] + "()"
        elif e in ("cp", "data"):
            i = inp(e, ev["bytes"])
        else:
            i = "%s()" % e
        if "why" in ev:
            return i + "=!" + ev["why"]
        if e in ("cp", "data"):
            return i + ("=ok" if ev["r"] == 0 else "=err")
        if e in ("rdata", "rcp", "progress"):
            return i + ("=skipped" if ev["skipped"] else "=done")
        return i + "="
    return classify


def make_sig_of(cfg):
    page, regs = CONFIGS[cfg]
    unaligned = any(a % page or b % page for a, b in regs)

    def sig_of(classes):
        """<violated rule>|after:<control point / notification steps of the minimal history>|at:<rejected step>
        (data writes, skipped notifications and results are left out of the history label; a page-granularity
        violation - ':straddles' - in a configuration whose regions are not page aligned is marked as such)"""
        inp, _, res = classes[-1].partition("=")
        hist = [x.partition("=")[0] for x in classes[:-1] if not x.startswith("data()") and not x.endswith("=skipped")]
        pre = "unaligned_regions:" if unaligned and res.endswith(":straddles") else ""
        return "%s%s|after:%s|at:%s" % (pre, res.lstrip("!"), ">".join(hist), inp)
    return sig_of


# ---------------------------------------------------------------------------------------------------
def run_cases(c, exe, cases, tag, tcfg, jobs=8):
    """cases: list of script-line lists (without 'reset') -> list of (events, first rejected event index or None)"""
    if not cases:
        return []
    total = sum(len(x) + 1 for x in cases)
    parts = vlib.chunks(cases, max(1, min(jobs, total // 5000)))
    traces = []
    for i, part in enumerate(parts):
        sp = os.path.join(c.build_dir, "s_%s_%d.txt" % (tag, i))
        tp = os.path.join(c.build_dir, "t_%s_%d.ndjson" % (tag, i))
        vlib.write_lines(sp, [l for case in part for l in ["reset"] + case])
        rc, out = vlib.run_harness(exe, [sp, tp], timeout=900)
        if rc != 0:
            raise vlib.ToolFailure("bootloader harness failed rc=%d: %s" % (rc, out[-2000:]))
        traces.append(tp)
    verdicts = vlib.validate_parallel("Bootloader", "BootloaderTrace.tla", tcfg, traces)
    res = []
    for tp, part in zip(traces, parts):
        v = verdicts[tp]
        why = {}
        for line in v.out.splitlines():
            if line.startswith('<<"WHY"'):
                t = vlib.parse_tla_value(line.strip())
                if t:
                    why[int(t[1])] = ":".join(str(x) for x in t[2])
        execs = vlib.split_executions(tp)
        if len(execs) != len(part):
            raise vlib.ToolFailure("bootloader harness: %d executions recorded, %d expected (%s)" % (len(execs), len(part), tp))
        c.add_traces(len(execs), v.events)
        mm = sorted(v.mismatch_lines)
        for (first, evs), ops in zip(execs, part):
            if evs[-1].get("e") == "Crash" and len(evs) - 1 <= len(ops):
                evs[-1]["op"] = ops[len(evs) - 2]          # the op during which the sanitizer fired
            hit = [ln - first for ln in mm if first <= ln < first + len(evs)]
            if hit:
                evs[hit[0]]["why"] = why.get(first + hit[0], "unexplained")
            res.append((evs, hit[0] if hit else None))
            for e in evs:
                c.extra["events_by_action"][e["e"]] = c.extra["events_by_action"].get(e["e"], 0) + 1
                for f in e.get("fx", []):
                    c.extra["handler_calls"][f["k"]] = c.extra["handler_calls"].get(f["k"], 0) + 1
    return res


def judge(c, exe, cfg, cases, tcfg):
    classify, sig_of = make_classifier(cfg), make_sig_of(cfg)
    res = run_cases(c, exe, cases, cfg, tcfg, jobs=8 if c.quick else 24)
    fails = [_minimise.Failure(ops, evs, k) for ops, (evs, k) in zip(cases, res) if k is not None]
    c.extra["rejected_executions"][cfg] = len(fails)
    if not fails:
        return
    n = [0]

    def batch(cands):
        n[0] += 1
        return run_cases(c, exe, cands, "min_%s_%d" % (cfg, n[0]), tcfg, jobs=4)

    page, regs = CONFIGS[cfg]
    for sig, ops, evs, members in _minimise.attribute(fails, batch, classify, sig_of, max_rounds=8):
        what = ("bootloader controller (page %d, regions %s): step %s after %s is not accepted by the white list / content / "
                "checksum judgement (%d executions)" % (page, regs, json.dumps(evs[-1], separators=(",", ":"))[:400], ops[:-1], len(members)))
        for _ in members:
            c.finding(sig, what, {"config": cfg, "ops": ops})


def build_all(c, pool, only=None):
    futs = {}
    for name, (page, regs) in CONFIGS.items():
        if only and name not in only.split(","):
            continue
        rlist = ",".join("bluetoe::bootloader::memory_region<%d,%d>" % r for r in regs)
        rjson = "[%s]" % ",".join("[%d,%d]" % r for r in regs)
        futs[name] = pool.submit(vlib.build, c, "bl_" + name, ["bootloader/bootloader_harness.cpp"],
                                 defines=["BL_PAGE=%d" % page, "BL_REGIONS=" + rlist, "BL_REGION_JSON=\"%s\"" % rjson])
    return futs


def run(c):
    c.assumptions += ["the recording handler is the device: memory = pattern overlaid by flashed pages, checksum32(buf,n,old) = old + sum, "
                      "checksum32(addr) = (addr % 100000) * 31 + 7",
                      "notifications are built only when the controller asked for them, a progress notification only for an outstanding flash",
                      "results of writes are not prescribed (rejecting is always safe); a rejected data write ends the judged session",
                      "sizeof(std::uint8_t*) = 8 on the host; page sizes 4 and 16; addresses < 2^29"]
    c.extra["events_by_action"] = {}
    c.extra["handler_calls"] = {}
    c.extra["rejected_executions"] = {}
    tcfg = vlib.write_cfg(c, "trace.cfg", TRACE_CFG)
    pool = ThreadPoolExecutor(6)
    builds = build_all(c, pool, None if c.replay else
                       (os.environ.get("VERIF_DEV_C39_CONFIGS") or ("p4_two,p4_unaligned,p16_two" if c.quick else None)))
    if c.replay:
        return replay(c, builds, tcfg)
    f_mc = pool.submit(vlib.model_check, c, "Bootloader", "MCBootloader.tla", "MC.cfg" if c.quick else "MCThorough.cfg", workers=4) \
        if not os.environ.get("VERIF_DEV_SKIP_MC") else pool.submit(lambda: None)
    # behaviours per configuration: (mode, depth) exhaustive + random wide ones
    if c.quick:
        plan = {"p4_two": [("bfs", 2), ("flash", 3), ("race", 7), ("read", 4), ("busy", 4)], "p4_unaligned": [("flash", 3)],
                "p16_two": [("flash", 3)]}
        nsim, dsim = 20, 8
    else:
        plan = {"p4_two": [("bfs", 3), ("flash", 5), ("race", 8), ("read", 6), ("busy", 5)],
                "p4_unaligned": [("bfs", 2), ("flash", 4), ("read", 4)],
                "p16_two": [("bfs", 2), ("flash", 4), ("race", 7), ("read", 5), ("busy", 5)], "p4_adjacent": [("flash", 4)]}
        nsim, dsim = 60, 10
    only = os.environ.get("VERIF_DEV_C39_CONFIGS")           # development aid (mutation runs): restrict the configurations
    if only:
        plan = {k: v for k, v in plan.items() if k in only.split(",")}
    gens = {}
    for cfg, modes in plan.items():
        for mode, depth in modes:
            gens[(cfg, mode)] = pool.submit(vlib.generate, c, "Bootloader", "BootloaderGen.tla",
                                            gen_cfg(c, "gen_%s_%s.cfg" % (cfg, mode), cfg, depth, mode, False), workers=2)
        gens[(cfg, "wide")] = pool.submit(vlib.generate, c, "Bootloader", "BootloaderGen.tla",
                                          gen_cfg(c, "gen_%s_wide.cfg" % cfg, cfg, dsim, "wide", True),
                                          simulate=nsim, depth=dsim + 2, seed=c.seed, workers=2)
    c.exhaustive = True
    c.extra["behaviours"] = {}
    c.extra["rule"] = ("behaviours are enumerated by TLC from BootloaderGen.tla (BFS over the boundary alphabet / the Start Flash "
                       "families, -simulate over the wide alphabet); the grid opcode 0..10,0xFF x length 0..20 (fresh state and inside a "
                       "flash session, two address pairs) is a plain grid enumerated by python; python also expands abstract ops "
                       "to bytes (little endian addresses, numbered data bytes)")
    f_mc.result()
    for cfg in plan:
        behs = []
        for (g, mode), f in gens.items():
            if g == cfg:
                b = f.result()
                if mode == "wide":
                    b = b[:2 * nsim]
                c.extra["behaviours"]["%s:%s" % (cfg, mode)] = len(b)
                behs += b
        g = grid(cfg) if (cfg == "p4_two" or not c.quick) else []
        c.extra["behaviours"]["%s:grid" % cfg] = len(g)
        behs += g
        c.sample({"config": cfg, "behaviour": behs[len(behs) // 3]})
        judge(c, builds[cfg].result(), cfg, [script_of(b) for b in behs], tcfg)
    pool.shutdown()
    missing = [a for a in ("Reset", "cp", "data", "rdata", "rcp", "progress") if not c.extra["events_by_action"].get(a)]
    missing += [k for k in ("flash", "readmem", "pubread", "pubcrc") if not c.extra["handler_calls"].get(k)]
    if missing:
        raise vlib.ToolFailure("vacuous: never recorded: %s" % missing)


def replay(c, builds, tcfg):
    case = json.load(open(c.replay))["case"]
    cfg = case["config"]
    classify = make_classifier(cfg)
    (evs, k), = run_cases(c, builds[cfg].result(), [case["ops"]], "replay", tcfg)
    c.sample(evs)
    if k is not None:
        c.finding(make_sig_of(cfg)([classify(e) for e in evs[1:k + 1]]), "replayed case rejected at event %d: %s" % (k, evs[k]), case)
    else:
        c.note("replayed case is accepted by the specification")
