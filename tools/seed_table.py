#!/usr/bin/env python3
"""print a markdown table of the seeded changes under /verif/seeded (for DESIGN.md section 13)"""
import glob, json, os
rows = []
for d in sorted(glob.glob("/verif/seeded/C*")):
    pid = os.path.basename(d)
    try:
        m = json.load(open(os.path.join(d, "meta.json")))
    except Exception:
        continue
    v = m.get("verified_by_maintainer", {})
    det = m.get("detected_after_strengthening", v.get("detected"))
    sig = ""
    for l in v.get("check_output", []) or []:
        if "signature:" in l:
            sig = l.split("signature:")[1].strip()[:70]
            break
    rows.append("| %s | %s | %s | %s | %s |" % (pid, (m.get("summary") or "")[:150].replace("|", "/").replace("\n", " "),
                (m.get("needs") or "")[:140].replace("|", "/").replace("\n", " "),
                ("yes (after strengthening)" if m.get("strengthening") else "yes") if det else "NO", m.get("strengthening", sig and "`%s`" % sig.replace("|", "/"))))
print("| property | seeded change | needs | detected | signature / strengthening |\n|---|---|---|---|---|")
print("\n".join(rows))
