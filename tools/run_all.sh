#!/bin/bash
# tools/run_all.sh [tier] [ids...]  - run checks sequentially, one line per check: id exit wall
TIER=${1:-quick}; shift
cd /verif
IDS=${@:-$(python3 -c "
import sys; sys.path.insert(0,'.'); from checks import REGISTRY; print(' '.join(sorted(REGISTRY)))")}
mkdir -p build/logs
for id in $IDS; do
  t0=$(date +%s)
  ./check $id --tier $TIER > build/logs/$id.$TIER.log 2>&1; rc=$?
  t1=$(date +%s)
  echo "$id rc=$rc wall=$((t1-t0))s known=$(grep -c KNOWN-FINDING build/logs/$id.$TIER.log) viol=$(grep -c '^VIOLATION' build/logs/$id.$TIER.log)"
done
