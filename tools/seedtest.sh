#!/bin/bash
# tools/seedtest.sh <ID> [patch] [tier]  - run ./check <ID> against a scratch worktree of /repo with a seeded change applied.
# Expected outcome: exit 1 with a VIOLATION line. Evidence/replays/build of the run go to a scratch dir; the worktree is removed.
set -u
ID=$1; PATCH=${2:-/verif/seeded/$ID/patch.diff}; TIER=${3:-quick}
WT=$(mktemp -d /tmp/mut_${ID}_XXXX)
git -C /repo worktree add -q --detach "$WT/wt" HEAD || exit 2
trap 'git -C /repo worktree remove --force "$WT/wt" >/dev/null 2>&1; rm -rf "$WT"' EXIT
git -C "$WT/wt" apply --3way "$PATCH" 2>/dev/null || git -C "$WT/wt" apply "$PATCH" || (cd "$WT/wt" && patch -p1 -s < "$PATCH") || { echo "patch does not apply"; exit 2; }
mkdir -p "$WT/ev" "$WT/rp" "$WT/build"
cd /verif && VERIF_REPO="$WT/wt" VERIF_EVIDENCE_DIR="$WT/ev" VERIF_REPLAYS_DIR="$WT/rp" VERIF_BUILD_DIR="$WT/build" ./check "$ID" --tier "$TIER" > "$WT/log" 2>&1
rc=$?
grep -E "VIOLATION|KNOWN-FINDING|^OK|TOOL-FAILURE|signature|MODEL-DRIFT" "$WT/log" | cut -c1-260 | head -12
echo "seedtest $ID rc=$rc"
exit $rc
