#!/bin/bash
# tools/seedtest.sh <ID> [patch] [tier]  - run ./check <ID> against a scratch worktree of /repo with a seeded change applied.
# Expected outcome: exit 1 with a VIOLATION line. The worktree is removed afterwards.
set -u
ID=$1; PATCH=${2:-/verif/seeded/$ID/patch.diff}; TIER=${3:-quick}
WT=$(mktemp -d /tmp/mut_${ID}_XXXX)
git -C /repo worktree add -q --detach "$WT" HEAD || exit 2
trap 'git -C /repo worktree remove --force "$WT" >/dev/null 2>&1' EXIT
git -C "$WT" apply "$PATCH" || { echo "patch does not apply"; exit 2; }
cd /verif && VERIF_REPO="$WT" ./check "$ID" --tier "$TIER" 2>&1 | grep -E "VIOLATION|KNOWN-FINDING|^OK|TOOL-FAILURE|signature|MODEL-DRIFT" | cut -c1-300
exit ${PIPESTATUS[0]}
