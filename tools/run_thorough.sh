#!/bin/bash
# run thorough tiers one after the other with a cap; log: id rc wall
cd /verif; mkdir -p build/logs build/thorough_ev
for id in "$@"; do
  t0=$(date +%s)
  VERIF_EVIDENCE_DIR=/verif/build/thorough_ev VERIF_BUILD_DIR=/verif/build/thorough_build timeout 3000 ./check $id --tier thorough > build/logs/$id.thorough.log 2>&1; rc=$?
  t1=$(date +%s)
  echo "$id rc=$rc wall=$((t1-t0))s known=$(grep -c KNOWN-FINDING build/logs/$id.thorough.log) viol=$(grep -c '^VIOLATION' build/logs/$id.thorough.log) $(grep -E 'TOOL-FAILURE' build/logs/$id.thorough.log | head -1 | cut -c1-200)" >> build/thorough.log
done
