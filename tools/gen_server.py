#!/usr/bin/env python3
"""gen_server.py - abstract GATT server declaration (JSON)  ->  compilable Bluetoe server + TLA+ view

    gen_server.py <decl.json> [--out DIR]     writes DIR/<name>.hpp and DIR/<name>.norm.json
    import gen_server; gen_server.generate(decl_dict, out_dir) -> (hpp_path, norm_json_path, norm_dict)

Input format: see /verif/spec/Gatt/README.md (hand written examples: spec/Gatt/decls/corner_*.json).

Outputs
  <name>.hpp        `using server_t = bluetoe::server< ... >;` plus the bound variables, read/write handlers,
                    names and a small run-time description (verif::values[], verif::notify()) for harnesses.
  <name>.norm.json  ONE line of JSON: the same declaration with every default filled in, UUIDs / names / initial
                    values as little-endian byte lists and service references 1-based. This is what the TLA+
                    modules read (GattDb!Build takes exactly this record). Pure format conversion - nothing about
                    handles or attribute order is computed here; that is the job of spec/Gatt/GattDb.tla.

The script rejects declarations that are not legal Bluetoe servers for *syntactic* reasons (unknown keys, bad
UUIDs, notify on a fixed blob, ...). Handle monotonicity (fixed handles never going backwards) is a property of the
attribute table and is checked by GattDb!WellFormed in TLC (GattDbGen.tla refuses such a declaration).
"""
import json
import os
import re
import sys

ENC = {"inherit": None, "requires": "bluetoe::requires_encryption", "none": "bluetoe::no_encryption_required",
       "may": "bluetoe::may_require_encryption"}
SERVER_KEYS = {"write_queue", "max_mtu", "encryption", "priority", "name", "appearance", "gap_service"}
SERVICE_KEYS = {"uuid", "secondary", "handle", "includes", "encryption", "priority", "chars", "comment"}
CHAR_KEYS = {"uuid", "value", "no_read", "no_write", "notify", "indicate", "name", "handle", "handles", "encryption",
             "comment"}
DEFAULT_NAME = "Bluetoe-Server"


class DeclError(Exception):
    pass


def parse_uuid(u):
    """'180F' -> (16, 0x180f) ; '8C8B4094-0DE2-499F-A28A-4EED5BC73CA9' -> (128, (a, b, c, d, e))"""
    if isinstance(u, int):
        u = "%04X" % u
    u = u.strip()
    if re.fullmatch(r"[0-9a-fA-F]{4}", u):
        return 16, int(u, 16)
    m = re.fullmatch(r"([0-9a-fA-F]{8})-([0-9a-fA-F]{4})-([0-9a-fA-F]{4})-([0-9a-fA-F]{4})-([0-9a-fA-F]{12})", u)
    if not m:
        raise DeclError("bad uuid %r" % u)
    return 128, tuple(int(g, 16) for g in m.groups())


def uuid_le_bytes(u):
    bits, v = parse_uuid(u)
    if bits == 16:
        return [v & 0xff, v >> 8]
    a, b, c, d, e = v
    be = a.to_bytes(4, "big") + b.to_bytes(2, "big") + c.to_bytes(2, "big") + d.to_bytes(2, "big") + e.to_bytes(6, "big")
    return list(reversed(be))


def uuid_cpp(u, kind):
    """kind: 'service' | 'characteristic'"""
    bits, v = parse_uuid(u)
    if bits == 16:
        return "bluetoe::%s_uuid16< 0x%04X >" % (kind, v)
    return "bluetoe::%s_uuid< 0x%08X, 0x%04X, 0x%04X, 0x%04X, 0x%012X >" % ((kind,) + v)


def init_pattern(serial, n):
    """deterministic, per characteristic distinct initial value"""
    return [(0x11 * serial + 0x20 + 7 * i) & 0xff for i in range(n)]


def check_keys(obj, allowed, what):
    extra = set(obj) - allowed
    if extra:
        raise DeclError("%s: unknown keys %s" % (what, sorted(extra)))


def normalize(decl):
    """-> normalized declaration (the record GattDb!Build takes)"""
    if "name" not in decl or not re.fullmatch(r"[A-Za-z][A-Za-z0-9_]*", decl["name"]):
        raise DeclError("declaration needs a C identifier as \"name\"")
    srv = dict(decl.get("server", {}))
    check_keys(srv, SERVER_KEYS, "server")
    services = decl.get("services", [])
    if not services:
        raise DeclError("a server needs at least one service")
    enc = srv.get("encryption", "inherit")
    if enc not in ENC:
        raise DeclError("server.encryption %r" % enc)
    sname = srv.get("name")
    mtu = int(srv.get("max_mtu", 23))
    if mtu < 23 or mtu > 0xffff:
        raise DeclError("max_mtu %d" % mtu)
    norm = {"name": decl["name"],
            "opts": {"wq": int(srv.get("write_queue", 0)), "mtu": mtu, "enc": enc,
                     "gap": bool(srv.get("gap_service", True)),
                     "sname": list((sname if sname is not None else DEFAULT_NAME).encode()),
                     "has_sname": sname is not None,
                     "appearance": int(srv.get("appearance", 0)),
                     "prio": norm_prio(srv.get("priority"), "services", len(services))},
            "services": []}
    serial = 0
    for k, s in enumerate(services, 1):
        check_keys(s, SERVICE_KEYS, "service %d" % k)
        if s.get("encryption", "inherit") not in ENC:
            raise DeclError("service %d encryption" % k)
        chars = []
        for j, c in enumerate(s.get("chars", []), 1):
            serial += 1
            chars.append(norm_char(c, "service %d char %d" % (k, j), serial))
        incs = [int(i) for i in s.get("includes", [])]
        for i in incs:
            if not (1 <= i <= len(services)) or i == k:
                raise DeclError("service %d includes %d" % (k, i))
            first = [m for m, t in enumerate(services, 1) if uuid_le_bytes(t["uuid"]) == uuid_le_bytes(services[i - 1]["uuid"])][0]
            if first != i:
                raise DeclError("service %d: include_service<> is by UUID and would resolve to service %d, not %d" % (k, first, i))
        norm["services"].append({"uuid": uuid_le_bytes(s["uuid"]), "secondary": bool(s.get("secondary", False)),
                                 "handle": int(s.get("handle", 0)), "includes": incs,
                                 "enc": s.get("encryption", "inherit"),
                                 "prio": norm_prio(s.get("priority"), "chars", len(chars)),
                                 "chars": chars})
    return norm


def norm_prio(p, key, n):
    if not p:
        return {"kind": "none", "list": []}
    if p.get("kind") == "lower":
        raise DeclError("lower_outgoing_priority<> is declared but not implemented in Bluetoe (a server using it does not compile)")
    if p.get("kind") != "higher":
        raise DeclError("priority kind %r" % p.get("kind"))
    lst = [int(i) for i in p.get(key, [])]
    if any(not (1 <= i <= n) for i in lst) or len(set(lst)) != len(lst):
        raise DeclError("priority list %r" % lst)
    return {"kind": p["kind"], "list": lst}


def norm_char(c, what, serial):
    check_keys(c, CHAR_KEYS, what)
    v = c.get("value", {"kind": "bound", "size": 1})
    kind = v.get("kind")
    hread = hwrite = False
    if kind in ("bound", "const"):
        init = init_pattern(serial, int(v["size"]))
    elif kind == "fixed":
        init = [int(b) & 0xff for b in v["bytes"]]
    elif kind == "fixed_uint":
        w = int(v["width"])
        if w not in (1, 2, 4):
            raise DeclError("%s: fixed_uint width" % what)
        init = list(int(v["value"]).to_bytes(w, "little"))
    elif kind == "handler":
        init = init_pattern(serial, int(v["size"]))
        hread, hwrite = bool(v.get("read", True)), bool(v.get("write", True))
    else:
        raise DeclError("%s: value kind %r" % (what, kind))
    if not init:
        raise DeclError("%s: empty value" % what)
    notify, indicate = bool(c.get("notify", False)), bool(c.get("indicate", False))
    no_read, no_write = bool(c.get("no_read", False)), bool(c.get("no_write", False))
    if kind == "fixed" and (notify or indicate or no_read):
        raise DeclError("%s: fixed_blob_value ignores notify/indicate/no_read_access" % what)
    if kind == "handler":
        if not (hread or hwrite) or ((notify or indicate) and not hread) or (no_write and hwrite):
            raise DeclError("%s: illegal handler combination" % what)
    hs = c.get("handles")
    if hs is not None:
        hs = [int(x) for x in hs] + [0] * (3 - len(hs))
        if c.get("handle") or hs[0] <= 0 or hs[1] <= hs[0] or (hs[2] and (hs[2] <= hs[1] or not (notify or indicate))):
            raise DeclError("%s: handles %r" % (what, hs))
    if c.get("encryption", "inherit") not in ENC:
        raise DeclError("%s: encryption" % what)
    name = c.get("name")
    return {"uuid": uuid_le_bytes(c["uuid"]), "vkind": kind, "init": init, "hread": hread, "hwrite": hwrite,
            "no_read": no_read, "no_write": no_write, "notify": notify, "indicate": indicate,
            "has_name": name is not None, "name": list((name or "").encode()),
            "handle": int(c.get("handle", 0)), "handles": hs or [0, 0, 0], "enc": c.get("encryption", "inherit"),
            "serial": serial}


# ---------------------------------------------------------------------------------------------
def cstr(s):
    return '"' + "".join(ch if (32 <= ord(ch) < 127 and ch not in '"\\') else "\\%03o" % ord(ch) for ch in s) + '"'


def bytes_init(bs):
    return "{ " + ", ".join("0x%02x" % b for b in bs) + " }"


def cpp(decl, norm):
    name = norm["name"]
    pre, values, notes = [], [], []
    srv_opts = []
    services_cpp = []
    serial = 0
    for k, (s, ns) in enumerate(zip(decl["services"], norm["services"]), 1):
        opts = [uuid_cpp(s["uuid"], "service")]
        if ns["secondary"]:
            opts.append("bluetoe::is_secondary_service")
        if ns["handle"]:
            opts.append("bluetoe::attribute_handle< 0x%04X >" % ns["handle"])
        for i in ns["includes"]:
            opts.append("bluetoe::include_service< %s >" % uuid_cpp(decl["services"][i - 1]["uuid"], "service"))
        if ENC[ns["enc"]]:
            opts.append(ENC[ns["enc"]])
        if ns["prio"]["kind"] != "none":
            opts.append("bluetoe::%s_outgoing_priority< %s >" % (
                ns["prio"]["kind"], ", ".join(uuid_cpp(s["chars"][i - 1]["uuid"], "characteristic") for i in ns["prio"]["list"])))
        for j, (c, nc) in enumerate(zip(s.get("chars", []), ns["chars"]), 1):
            serial += 1
            tag = "s%d_c%d" % (k, j)
            co = [uuid_cpp(c["uuid"], "characteristic")]
            n = len(nc["init"])
            vk = nc["vkind"]
            if vk == "bound":
                pre.append("static std::uint8_t v_%s[ %d ] = %s;" % (tag, n, bytes_init(nc["init"])))
                co.append("bluetoe::bind_characteristic_value< decltype( v_%s ), &v_%s >" % (tag, tag))
                pre.append("static const std::uint8_t i_%s[ %d ] = %s;" % (tag, n, bytes_init(nc["init"])))
                values.append("{ %d, %d, %d, verif_decl::v_%s, %d, true, verif_decl::i_%s }" % (serial, k, j, tag, n, tag))
                notes.append((serial, "verif_decl::v_" + tag, nc))
            elif vk == "const":
                pre.append("extern const std::uint8_t v_%s[ %d ];\nconst std::uint8_t v_%s[ %d ] = %s;" % (tag, n, tag, n, bytes_init(nc["init"])))
                co.append("bluetoe::bind_characteristic_value< decltype( v_%s ), &v_%s >" % (tag, tag))
                values.append("{ %d, %d, %d, const_cast< std::uint8_t* >( verif_decl::v_%s ), %d, false, verif_decl::v_%s }" % (serial, k, j, tag, n, tag))
                notes.append((serial, "verif_decl::v_" + tag, nc))
            elif vk == "fixed":
                pre.append("static constexpr std::uint8_t v_%s[ %d ] = %s;" % (tag, n, bytes_init(nc["init"])))
                co.append("bluetoe::fixed_blob_value< v_%s, %d >" % (tag, n))
            elif vk == "fixed_uint":
                val = int.from_bytes(bytes(nc["init"]), "little")
                co.append("bluetoe::fixed_uint%d_value< 0x%X >" % (8 * n, val))
            elif vk == "handler":
                pre.append("static std::uint8_t v_%s[ %d ] = %s;" % (tag, n, bytes_init(nc["init"])))
                pre.append("static const std::uint8_t i_%s[ %d ] = %s;" % (tag, n, bytes_init(nc["init"])))
                values.append("{ %d, %d, %d, verif_decl::v_%s, %d, true, verif_decl::i_%s }" % (serial, k, j, tag, n, tag))
                if nc["hread"]:
                    pre.append(
                        "static std::uint8_t rd_%s( std::size_t offset, std::size_t read_size, std::uint8_t* out, std::size_t& out_size )\n"
                        "{ return verif::store_read( v_%s, %d, offset, read_size, out, out_size ); }" % (tag, tag, n))
                    co.append("bluetoe::free_read_blob_handler< &rd_%s >" % tag)
                if nc["hwrite"]:
                    pre.append(
                        "static std::uint8_t wr_%s( std::size_t offset, std::size_t write_size, const std::uint8_t* value )\n"
                        "{ return verif::store_write( v_%s, %d, offset, write_size, value ); }" % (tag, tag, n))
                    co.append("bluetoe::free_write_blob_handler< &wr_%s >" % tag)
            if nc["no_read"]:
                co.append("bluetoe::no_read_access")
            if nc["no_write"] and vk != "handler":
                co.append("bluetoe::no_write_access")
            if nc["notify"]:
                co.append("bluetoe::notify")
            if nc["indicate"]:
                co.append("bluetoe::indicate")
            if nc["has_name"]:
                pre.append("static constexpr char n_%s[] = %s;" % (tag, cstr(c["name"])))
                co.append("bluetoe::characteristic_name< n_%s >" % tag)
            if nc["handle"]:
                co.append("bluetoe::attribute_handle< 0x%04X >" % nc["handle"])
            if nc["handles"][0]:
                co.append("bluetoe::attribute_handles< 0x%04X, 0x%04X, 0x%04X >" % tuple(nc["handles"]))
            if ENC[nc["enc"]]:
                co.append(ENC[nc["enc"]])
            opts.append("bluetoe::characteristic<\n            " + ",\n            ".join(co) + "\n        >")
        services_cpp.append("    bluetoe::service<\n        " + ",\n        ".join(opts) + "\n    >")
    o = norm["opts"]
    if o["wq"]:
        srv_opts.append("bluetoe::shared_write_queue< %d >" % o["wq"])
    if "max_mtu" in decl.get("server", {}):
        srv_opts.append("bluetoe::max_mtu_size< %d >" % o["mtu"])
    if ENC[o["enc"]]:
        srv_opts.append(ENC[o["enc"]])
    if o["prio"]["kind"] != "none":
        srv_opts.append("bluetoe::%s_outgoing_priority< %s >" % (
            o["prio"]["kind"], ", ".join(uuid_cpp(decl["services"][i - 1]["uuid"], "service") for i in o["prio"]["list"])))
    if o["has_sname"]:
        pre.append("static constexpr char server_name_text[] = %s;" % cstr(decl["server"]["name"]))
        srv_opts.append("bluetoe::server_name< server_name_text >")
    if "appearance" in decl.get("server", {}):
        srv_opts.append("bluetoe::device_appearance< 0x%04X >" % o["appearance"])
    if not o["gap"]:
        srv_opts.append("bluetoe::no_gap_service_for_gatt_servers")
    body = ",\n".join(services_cpp + ["    " + x for x in srv_opts])

    notify_cases = []
    for serial_, var, nc in notes:
        if nc["vkind"] == "bound" and (nc["notify"] or nc["indicate"]):
            if nc["notify"]:
                notify_cases.append("        if ( serial == %d && !indication ) return srv.notify( %s ) ? 1 : 0;" % (serial_, var))
            if nc["indicate"]:
                notify_cases.append("        if ( serial == %d && indication ) return srv.indicate( %s ) ? 1 : 0;" % (serial_, var))
    return HEADER % {"name": name, "pre": "\n".join(pre), "body": body,
                     "values": ",\n        ".join(values + ["{ 0, 0, 0, nullptr, 0, false, nullptr }"]),
                     "notify": "\n".join(notify_cases), "mtu": o["mtu"], "wq": o["wq"],
                     "src": json.dumps(decl, separators=(",", ":"))[:2000].replace("*/", "* /")}


HEADER = """// generated by /verif/tools/gen_server.py from declaration "%(name)s" - do not edit
// %(src)s
#ifndef VERIF_GENERATED_SERVER_HPP
#define VERIF_GENERATED_SERVER_HPP
#include <iterator>
#include <cstdint>
#include <cstddef>
#include <cstring>
#include <algorithm>
#include <bluetoe/server.hpp>

namespace verif {
    // value store behind read/write handlers: same semantics as a bound variable
    inline std::uint8_t store_read( const std::uint8_t* mem, std::size_t size, std::size_t offset, std::size_t read_size, std::uint8_t* out, std::size_t& out_size )
    {
        if ( offset > size ) return bluetoe::error_codes::invalid_offset;
        out_size = std::min( read_size, size - offset );
        std::copy( mem + offset, mem + offset + out_size, out );
        return bluetoe::error_codes::success;
    }
    inline std::uint8_t store_write( std::uint8_t* mem, std::size_t size, std::size_t offset, std::size_t write_size, const std::uint8_t* value )
    {
        if ( offset > size ) return bluetoe::error_codes::invalid_offset;
        if ( offset + write_size > size ) return bluetoe::error_codes::invalid_attribute_value_length;
        std::copy( value, value + write_size, mem + offset );
        return bluetoe::error_codes::success;
    }
}

namespace verif_decl {
%(pre)s

using server_t = bluetoe::server<
%(body)s
>;
}

namespace verif {
    using server_t = verif_decl::server_t;
    static const char decl_name[] = "%(name)s";
    static constexpr std::size_t decl_max_mtu     = %(mtu)d;
    static constexpr std::size_t decl_write_queue = %(wq)d;

    // memory behind every bound / const / handler characteristic value (serial = running number of the
    // characteristic over all services, 1-based, as in <name>.norm.json); terminated by serial 0
    struct value_ref { int serial; int service; int characteristic; std::uint8_t* mem; std::size_t size; bool writable; const std::uint8_t* init; };
    static const value_ref values[] = {
        %(values)s
    };

    // restore the initial values (the variables are globals and survive a new server object)
    inline void reset_values()
    {
        for ( const value_ref* v = values; v->serial; ++v )
            if ( v->writable ) std::copy( v->init, v->init + v->size, v->mem );
    }

    // notify / indicate a bound characteristic by value; -1 = not a notifiable bound characteristic
    inline int notify( server_t& srv, int serial, bool indication )
    {
        (void)srv; (void)serial; (void)indication;
%(notify)s
        return -1;
    }
}
#endif
"""


def generate(decl, out_dir):
    norm = normalize(decl)
    os.makedirs(out_dir, exist_ok=True)
    hpp = os.path.join(out_dir, norm["name"] + ".hpp")
    nj = os.path.join(out_dir, norm["name"] + ".norm.json")
    with open(hpp, "w") as f:
        f.write(cpp(decl, norm))
    with open(nj, "w") as f:
        f.write(json.dumps(norm, separators=(",", ":")) + "\n")
    return hpp, nj, norm


def main(argv):
    if len(argv) < 2:
        print(__doc__)
        return 2
    out = "."
    if "--out" in argv:
        out = argv[argv.index("--out") + 1]
    try:
        hpp, nj, _ = generate(json.load(open(argv[1])), out)
    except DeclError as e:
        print("gen_server: %s" % e, file=sys.stderr)
        return 1
    print(hpp)
    print(nj)
    return 0


if __name__ == "__main__":
    sys.exit(main(sys.argv))
