#!/usr/bin/env python3
"""record the outcome of the re-tests after strengthening in /verif/seeded/<ID>/meta.json (from build/seed_retest.log)"""
import json, os, re
S = {
 "C15": "payload lengths around every bit boundary of the 8-bit length field added to the LLData environment (32, 64, 96, ...)",
 "C16": "central may send reserved LLID 0 PDUs (empty / non-empty, new / retransmitted, every channel outcome)",
 "C02": "128-bit aliases and near-aliases of every 16-bit attribute type added to the discovery sweep",
 "C03": "Find By Type Value values: aliases, near-aliases, prefixes and fragments of every service UUID",
 "C23": "latency boundary values (36..38, 255/256, 481..483, 498/499) with pull-back at several distances, channel indices and the counter wrap",
 "C24": "intervals that are not multiples of 0.625 ms / 5 ms and runs long enough to reach advDelay 0; distance judged in microseconds",
 "C27": "two peripheral-initiated procedures outstanding, answers (response / unknown / reject) naming every opcode",
 "C33": "script-controlled bond database incl. (0,0) entries for this and another peer; find_key probes compare key identity",
 "C34": "encryption on/off between any two output polls during key distribution",
 "C35": "several pairing exchanges on one connection (status of the last completed exchange)",
 "C39": "control point writes (accepted and refused, every opcode) interleaved between chunks served by the application",
 "C01": "input length and output capacity varied independently (requests up to the server maximum while the negotiated MTU is 23)",
}
res = {}
if os.path.exists("/verif/build/seed_retest.log"):
    for l in open("/verif/build/seed_retest.log"):
        m = re.match(r"(C\d+) retest rc=(\d+)\s*(.*)", l)
        if m:
            res[m.group(1)] = (int(m.group(2)), m.group(3).replace("signature:", "").strip())
for pid, text in S.items():
    mp = "/verif/seeded/%s/meta.json" % pid
    if not os.path.exists(mp):
        continue
    m = json.load(open(mp))
    m["first_run_detected"] = bool(m.get("verified_by_maintainer", {}).get("detected")) if "first_run_detected" not in m else m["first_run_detected"]
    m["strengthening"] = text
    if pid in res:
        m["detected_after_strengthening"] = res[pid][0] == 1
        m["signature_after_strengthening"] = res[pid][1]
    json.dump(m, open(mp, "w"), indent=1)
    print(pid, m.get("first_run_detected"), m.get("detected_after_strengthening"), m.get("signature_after_strengthening", "")[:80])
