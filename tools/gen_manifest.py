#!/usr/bin/env python3
"""(re)generate /verif/MANIFEST.json from the META tables of checks/*.py"""
import importlib, json, os, sys
V = os.path.dirname(os.path.dirname(os.path.abspath(__file__)))
sys.path.insert(0, os.path.join(V, "tools")); sys.path.insert(0, V)
from checks import REGISTRY

props = [json.loads(l) for l in open(os.path.join(V, "properties.jsonl"))]
pending = {}
pp = os.path.join(V, "tools", "not_applicable.json")
if os.path.exists(pp):
    pending = json.load(open(pp))
ready = set(json.load(open(os.path.join(V, "tools", "ready.json"))))   # checks accepted by the maintainer
checks, na = [], []
for p in props:
    pid = p["id"]
    if pid in REGISTRY and pid in ready:
        mod = importlib.import_module("checks." + REGISTRY[pid])
        m = mod.META[pid]
        checks.append({
            "property_id": pid,
            "quick_cmd": "./check %s --tier quick" % pid,
            "thorough_cmd": "./check %s --tier thorough" % pid,
            "evidence_file": "/verif/evidence/%s.json" % pid,
            "replay_cmd_template": "./check %s --replay {path}" % pid,
            "engine": "tlc",
            "level_claimed": {"category": "model_checking", "text": m["text"], "design_ref": "DESIGN.md section " + m.get("design_ref", "5")},
            "level_note": m["note"],
            "technique": m.get("technique", "TLA+ specification checked with TLC, bound to the code by TLC trace validation"),
        })
    else:
        na.append({"property_id": pid, "reason": pending.get(pid, "check not built yet in this round (planned in DESIGN.md section 5); nothing is claimed")})
hooks = json.load(open(os.path.join(V, "tools", "hooks.json")))
man = {
    "version": 1,
    "setup_cmd": "make -C /verif setup",
    "hooks": hooks,
    "engines": [{"name": "tlc", "path": "/verif/check", "serves_properties": [c["property_id"] for c in checks],
                 "kind_free_text": "explicit TLA+ specifications (spec/), TLC exhaustive model checking, TLC-generated behaviours replayed "
                                   "on the real C++ classes (harness/), TLC trace validation of the recorded executions"}],
    "checks": checks,
    "not_applicable": na,
    "notes": "All checks: ./check <ID> --tier quick|thorough. Exit 2 = tool failure (never a verdict). See DESIGN.md.",
}
json.dump(man, open(os.path.join(V, "MANIFEST.json"), "w"), indent=1)
print("MANIFEST.json: %d checks, %d not applicable" % (len(checks), len(na)))
