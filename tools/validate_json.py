#!/opt/veriftools/pyvenv/bin/python
import json, jsonschema, glob, sys
jsonschema.validate(json.load(open('/verif/MANIFEST.json')), json.load(open('/root/.vp/MANIFEST.schema.json')))
es = json.load(open('/root/.vp/EVIDENCE.schema.json'))
for f in sorted(glob.glob('/verif/evidence/*.json')):
    jsonschema.validate(json.load(open(f)), es)
print('MANIFEST + %d evidence files validate' % len(glob.glob('/verif/evidence/*.json')))
