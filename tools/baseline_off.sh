#!/bin/bash
# Rebuild /repo/_build WITHOUT the hook guard and run the stable baseline (70 tests of /root/.vp/BASELINE.json).
# Exit 0 iff every stable test passes. (6 further ctest targets of the pinned tree do not compile with the
# installed g++ 12 and are not part of the baseline.)
set -u
R=${BASELINE_REPO:-/repo}
cd "$R" || exit 2
[ -f _build/build.ninja ] || cmake -G Ninja -B _build -DCMAKE_BUILD_TYPE=RelWithDebInfo -DBLUETOE_BUILD_UNIT_TESTS=ON -DBUILD_TESTING=ON -DCMAKE_CXX_FLAGS=-Wno-error >/dev/null || exit 2
cmake --build _build -- -k 0 >/tmp/baseline_build.$$.log 2>&1
ctest --test-dir _build -j16 --timeout 900 >/tmp/baseline_ctest.$$.log 2>&1
LOG=/tmp/baseline_ctest.$$.log python3 - <<'PY'
import json,re,sys
stable=[t.split("::")[0] for t in json.load(open("/root/.vp/BASELINE.json"))["stable_pass"]]
import os
log=open(os.environ["LOG"]).read()
passed=set(re.findall(r"Test\s+#\d+:\s+(\S+)\s+\.+\s+Passed",log))
missing=[t for t in stable if t not in passed]
print("baseline: %d/%d stable tests passed"%(len(stable)-len(missing),len(stable)))
if missing: print("NOT PASSED:",missing); sys.exit(1)
PY
