"""Common machinery for the /verif checks.

  * tlc()            run TLC (exhaustive / simulate) under timeout and parse its output
  * validate_trace() TLC trace validation of an NDJSON trace against a <X>Trace.tla module
  * build()          compile a harness against /repo's *current working tree* (hooks on, ASan/UBSan, NDEBUG)
  * run_harness()    run a harness under timeout
  * Check            bookkeeping: evidence file, known findings, VIOLATION / KNOWN-FINDING lines, exit code

Exit codes of ./check:  0 property held on everything explored (known findings printed),
                        1 VIOLATION line printed,
                        2 tool / model failure (never a verdict).
"""
import hashlib
import json
import os
import re
import shutil
import subprocess
import sys
import tempfile
import time

VERIF = os.path.dirname(os.path.dirname(os.path.abspath(__file__)))
REPO = os.environ.get("VERIF_REPO", "/repo")
SPEC = os.path.join(VERIF, "spec")
HARNESS = os.path.join(VERIF, "harness")
BUILD = os.environ.get("VERIF_BUILD_DIR") or os.path.join(VERIF, "build")
EVIDENCE = os.environ.get("VERIF_EVIDENCE_DIR") or os.path.join(VERIF, "evidence")   # (seed tests redirect it)
REPLAYS = os.environ.get("VERIF_REPLAYS_DIR") or os.path.join(VERIF, "replays")
KNOWN = os.path.join(VERIF, "known_findings.jsonl")
GUARD = "BLUETOE_VERIF"
NCPU = os.cpu_count() or 4


def jobs(limit=None):
    """degree of parallelism to use right now: all cores on a quiet machine, few on a loaded one"""
    try:
        load = os.getloadavg()[0]
    except OSError:
        load = 0
    n = NCPU if load < NCPU else (max(2, NCPU // 2) if load < 2 * NCPU else max(2, NCPU // 4))
    n = int(os.environ.get("VERIF_JOBS", n))
    return max(1, min(n, limit) if limit else n)

INCLUDES = [
    "-I" + REPO,
    "-I" + REPO + "/bluetoe/utility/include",
    "-I" + REPO + "/bluetoe/link_layer/include",
    "-I" + REPO + "/bluetoe/sm/include",
    "-I" + REPO + "/bluetoe/services",
    "-I" + REPO + "/tests/test_tools",
    "-I" + HARNESS + "/common",
]
LL_SOURCES = [
    REPO + "/bluetoe/link_layer/channel_map.cpp",
    REPO + "/bluetoe/link_layer/delta_time.cpp",
    REPO + "/bluetoe/link_layer/connection_details.cpp",
    REPO + "/bluetoe/utility/address.cpp",
]
LL_SOURCES = [s for s in LL_SOURCES if os.path.exists(s)]


class ToolFailure(Exception):
    pass


def log(*a):
    print(*a, flush=True)


# ------------------------------------------------------------------------------------------
# TLC
# ------------------------------------------------------------------------------------------
class TlcResult:
    def __init__(self, rc, out, wall):
        self.rc = rc
        self.out = out
        self.wall = wall
        self.generated = 0
        self.distinct = 0
        self.depth = 0
        self.violated = None          # name of violated invariant / property, or "deadlock"
        self.error = None             # other TLC error text
        self.prints = []              # parsed PrintT tuples  (list of python lists)
        self.coverage = {}            # action name -> (taken/distinct, generated)
        self.completed = False
        self._parse()

    def _parse(self):
        out = self.out
        m = None
        for m in re.finditer(r"(\d+) states generated, (\d+) distinct states found", out):
            pass
        if m:
            self.generated, self.distinct = int(m.group(1)), int(m.group(2))
        m = re.search(r"The depth of the complete state graph search is (\d+)", out)
        if m:
            self.depth = int(m.group(1))
        m = re.search(r"Invariant (\S+) is violated", out)
        if m:
            self.violated = m.group(1)
        m = re.search(r"Action property (\S+) is violated", out)
        if m:
            self.violated = m.group(1)
        if "Temporal properties were violated" in out:
            self.violated = self.violated or "temporal"
        if "Deadlock reached" in out:
            self.violated = self.violated or "deadlock"
        m = re.search(r"The postcondition \S* ?(\S*) ?is violated|Checking postcondition .* failed", out)
        if m and not self.violated:
            self.violated = "postcondition"
        self.completed = ("Model checking completed" in out) or ("Finished in" in out and "Error" not in out)
        if self.violated is None and not self.completed and "The number of states generated" not in out:
            em = re.search(r"Error: (.*)", out)
            self.error = em.group(1) if em else None
        for line in out.splitlines():
            line = line.strip()
            if line.startswith('<<"') and line.endswith(">>"):
                t = parse_tla_value(line)
                if t is not None:
                    self.prints.append(t)
        # coverage lines:  <Action line 12, col 1 to line 14, col 30 of module X>: 12:345
        for m in re.finditer(r"^<(\w+) line \d+, col \d+ to line \d+, col \d+ of module (\w+)>: (\d+):(\d+)", out, re.M):
            name = m.group(1)
            d, g = int(m.group(3)), int(m.group(4))
            od, og = self.coverage.get(name, (0, 0))
            self.coverage[name] = (od + d, og + g)

    def counterexample(self):
        """text of the TLC error trace, if any"""
        i = self.out.find("Error:")
        return self.out[i:i + 20000] if i >= 0 else ""


def parse_tla_value(s):
    """parse the subset of TLA+ values TLC prints: <<..>>, "str", ints, TRUE/FALSE, {..}, [a |-> v, ..]"""
    pos = 0
    n = len(s)

    def ws():
        nonlocal pos
        while pos < n and s[pos] in " \t\n\r":
            pos += 1

    def val():
        nonlocal pos
        ws()
        if s.startswith("<<", pos):
            pos += 2
            r = []
            ws()
            if s.startswith(">>", pos):
                pos += 2
                return r
            while True:
                r.append(val())
                ws()
                if s.startswith(">>", pos):
                    pos += 2
                    return r
                if s[pos] != ",":
                    raise ValueError(s[pos:pos + 20])
                pos += 1
        if s[pos] == "{":
            pos += 1
            r = []
            ws()
            if s[pos] == "}":
                pos += 1
                return r
            while True:
                r.append(val())
                ws()
                if s[pos] == "}":
                    pos += 1
                    return r
                if s[pos] != ",":
                    raise ValueError(s[pos:pos + 20])
                pos += 1
        if s[pos] == "[":
            pos += 1
            r = {}
            while True:
                ws()
                m = re.match(r"(\w+)\s*\|->", s[pos:])
                if not m:
                    raise ValueError(s[pos:pos + 20])
                pos += m.end()
                r[m.group(1)] = val()
                ws()
                if s[pos] == "]":
                    pos += 1
                    return r
                if s[pos] != ",":
                    raise ValueError(s[pos:pos + 20])
                pos += 1
        if s[pos] == '"':
            e = pos + 1
            while s[e] != '"':
                e += 2 if s[e] == "\\" else 1
            r = s[pos + 1:e].replace('\\"', '"').replace("\\\\", "\\")
            pos = e + 1
            return r
        m = re.match(r"-?\d+", s[pos:])
        if m:
            pos += m.end()
            return int(m.group(0))
        m = re.match(r"TRUE|FALSE", s[pos:])
        if m:
            pos += m.end()
            return m.group(0) == "TRUE"
        m = re.match(r"\w+", s[pos:])
        if m:
            pos += m.end()
            return m.group(0)
        raise ValueError(s[pos:pos + 20])

    try:
        v = val()
        ws()
        return v if pos == n else None
    except (ValueError, IndexError):
        return None


def tlc(module_dir, module, cfg, *, workers=None, timeout=900, env=None, simulate=None, depth=None,
        seed=None, coverage=False, heap="8g", extra=None, dfs_queue=False, dump=None):
    """run TLC; module_dir is relative to /verif/spec (or absolute). Returns TlcResult.
    simulate: number of behaviours per worker (int) -> -simulate num=N ; depth: -depth D"""
    d = module_dir if os.path.isabs(module_dir) else os.path.join(SPEC, module_dir)
    meta = tempfile.mkdtemp(prefix="tlcmeta_", dir=os.path.join(BUILD))
    cmd = ["timeout", str(timeout), "tlc", "-noGenerateSpecTE", "-metadir", meta,
           "-workers", str(min(workers or NCPU, jobs())), "-config", cfg]
    if simulate:
        cmd += ["-simulate", "num=%d" % simulate]
    if depth:
        cmd += ["-depth", str(depth)]
    if seed is not None:
        cmd += ["-seed", str(seed)]
    if coverage:
        cmd += ["-coverage", "1"]
    if dump:
        cmd += ["-dump", "dot,actionlabels", dump]
    if extra:
        cmd += extra
    cmd += [module]
    e = dict(os.environ)
    jopts = "-Xmx%s -XX:ParallelGCThreads=2 -XX:CICompilerCount=2" % heap
    if dfs_queue:
        jopts += " -Dtlc2.tool.queue.IStateQueue=StateDeque"
    e["JAVA_TOOL_OPTIONS"] = jopts
    e["JAVA_OPTS"] = jopts
    if env:
        e.update({k: str(v) for k, v in env.items()})
    t0 = time.time()
    try:
        p = subprocess.run(cmd, cwd=d, env=e, stdout=subprocess.PIPE, stderr=subprocess.STDOUT,
                           universal_newlines=True, errors="replace")
    finally:
        shutil.rmtree(meta, ignore_errors=True)
    r = TlcResult(p.returncode, p.stdout, time.time() - t0)
    if p.returncode == 124:
        raise ToolFailure("TLC timeout after %ss: %s %s" % (timeout, module, cfg))
    if "Parsing or semantic analysis failed" in p.stdout or "Error: Parsing" in p.stdout:
        raise ToolFailure("TLC could not parse %s/%s:\n%s" % (d, module, p.stdout[-3000:]))
    return r


def model_check(check, module_dir, module, cfg, *, must_hold=True, **kw):
    """exhaustive TLC run whose result is part of the evidence. A violated invariant on the
    *model* is a tool failure (modelling error) unless the caller handles it (must_hold=False)."""
    kw.setdefault("coverage", True)
    r = tlc(module_dir, module, cfg, **kw)
    check.add_model_run(module, cfg, r)
    if r.error or (must_hold and r.violated) or (not r.completed and not r.violated):
        raise ToolFailure("model check %s/%s %s failed: violated=%s error=%s\n%s"
                          % (module_dir, module, cfg, r.violated, r.error, r.out[-4000:]))
    # vacuity: an action never taken
    dead = [a for a, (d, g) in r.coverage.items() if d == 0 and g == 0 and a not in ("Init",)]
    if dead and kw.get("coverage"):
        check.note("actions never enabled in %s/%s: %s" % (module, cfg, dead))
    return r


# ------------------------------------------------------------------------------------------
# trace validation
# ------------------------------------------------------------------------------------------
class TraceVerdict:
    def __init__(self):
        self.mismatch_lines = []   # 1-based line numbers of events the spec cannot explain
        self.done = False
        self.events = 0
        self.out = ""


def validate_trace(module_dir, module, cfg, trace_path, *, timeout=900, env=None, heap="6g"):
    """Validate one NDJSON trace file against a trace spec.

    Contract of the trace spec (see spec/README.md): it reads IOEnv.TRACE, consumes the events in
    order, prints <<"MISMATCH", l>> for every event it cannot explain and resynchronises at the
    next {"e":"Reset"} event, and prints <<"TRACE_DONE", n>> when all n events were consumed."""
    ev = {"TRACE": trace_path}
    if env:
        ev.update(env)
    r = tlc(module_dir, module, cfg, workers=1, timeout=timeout, env=ev, heap=heap)
    v = TraceVerdict()
    v.out = r.out
    for p in r.prints:
        if p and p[0] == "MISMATCH":
            v.mismatch_lines.append(int(p[1]))
        if p and p[0] == "TRACE_DONE":
            v.done = True
            v.events = int(p[1])
    if r.violated or r.error or not v.done:
        raise ToolFailure("trace validation %s %s on %s did not run to the end (violated=%s error=%s)\n%s"
                          % (module, cfg, trace_path, r.violated, r.error, r.out[-4000:]))
    v.mismatch_lines = sorted(set(v.mismatch_lines))
    return v


def split_executions(trace_path):
    """-> list of (first_line_no, [event dicts]) per execution (an execution starts at a Reset event)"""
    execs = []
    cur = None
    with open(trace_path) as f:
        for i, line in enumerate(f, 1):
            line = line.strip()
            if not line:
                continue
            e = json.loads(line)
            if e.get("e") == "Reset" or cur is None:
                cur = (i, [])
                execs.append(cur)
            cur[1].append(e)
    return execs


def validate_parallel(module_dir, module, cfg, trace_paths, **kw):
    """validate several trace files concurrently (one TLC each). -> dict path -> TraceVerdict"""
    from concurrent.futures import ThreadPoolExecutor
    njobs = max(1, min(len(trace_paths), jobs() // 2))
    with ThreadPoolExecutor(njobs) as ex:
        res = list(ex.map(lambda p: validate_trace(module_dir, module, cfg, p, **kw), trace_paths))
    return dict(zip(trace_paths, res))


# ------------------------------------------------------------------------------------------
# building and running harnesses
# ------------------------------------------------------------------------------------------
def build(check, name, sources, *, flags=None, compiler="g++", sanitize=True, std="c++11", opt="-O1",
          defines=None, includes=None, link=None, timeout=900):
    """compile sources (absolute paths or relative to /verif/harness) into /verif/build/<id>/<name>"""
    out = os.path.join(check.build_dir, name)
    srcs = [s if os.path.isabs(s) else os.path.join(HARNESS, s) for s in sources]
    cmd = ["timeout", str(timeout), compiler, "-std=" + std, opt, "-g", "-DNDEBUG", "-D" + GUARD,
           "-fno-omit-frame-pointer", "-w"]
    if sanitize:
        cmd += ["-fsanitize=address,undefined", "-fno-sanitize-recover=undefined"]
    cmd += INCLUDES + (includes or [])
    cmd += ["-D" + d for d in (defines or [])]
    cmd += (flags or [])
    cmd += srcs + ["-o", out, "-pthread"] + (link or [])
    t0 = time.time()
    p = subprocess.run(cmd, stdout=subprocess.PIPE, stderr=subprocess.STDOUT, universal_newlines=True, errors="replace")
    if p.returncode != 0:
        raise ToolFailure("harness build failed (%s):\n%s\n%s" % (name, " ".join(cmd), p.stdout[-6000:]))
    check.note("built %s in %.1fs" % (name, time.time() - t0))
    return out


def build_many(check, jobs):
    """jobs: list of dict(name=, sources=, ...) compiled in parallel"""
    from concurrent.futures import ThreadPoolExecutor
    with ThreadPoolExecutor(min(len(jobs), globals()["jobs"]())) as ex:
        return list(ex.map(lambda j: build(check, **j), jobs))


def run_harness(exe, args, *, timeout=600, env=None, stdin=None):
    e = dict(os.environ)
    e.setdefault("ASAN_OPTIONS", "detect_leaks=0:abort_on_error=0:allocator_may_return_null=1")
    e.setdefault("UBSAN_OPTIONS", "print_stacktrace=1")
    if env:
        e.update(env)
    p = subprocess.run(["timeout", str(timeout), exe] + [str(a) for a in args], env=e, input=stdin,
                       stdout=subprocess.PIPE, stderr=subprocess.STDOUT, universal_newlines=True, errors="replace")
    if p.returncode == 124:
        raise ToolFailure("harness timeout: %s %s" % (exe, args))
    return p.returncode, p.stdout


# ------------------------------------------------------------------------------------------
# check bookkeeping
# ------------------------------------------------------------------------------------------
class Check:
    def __init__(self, prop, tier, seed, replay=None):
        self.prop = prop
        self.tier = tier
        self.seed = seed
        self.replay = replay
        self.t0 = time.time()
        self.build_dir = os.path.join(BUILD, prop)
        shutil.rmtree(self.build_dir, ignore_errors=True)
        os.makedirs(self.build_dir, exist_ok=True)
        os.makedirs(EVIDENCE, exist_ok=True)
        os.makedirs(REPLAYS, exist_ok=True)
        self.states = 0
        self.transitions = 0
        self.model_runs = []
        self.traces = 0
        self.events = 0
        self.samples = []
        self.notes = []
        self.assumptions = []
        self.extra = {}
        self.violations = []      # (signature, replay path, text)
        self.known_hits = {}      # signature -> count
        self.exhaustive = False
        self.known = load_known(prop)

    @property
    def quick(self):
        return self.tier == "quick"

    def note(self, s):
        self.notes.append(s)
        log("  [%s] %s" % (self.prop, s))

    def add_model_run(self, module, cfg, r):
        self.states += r.distinct
        self.transitions += r.generated
        self.model_runs.append({"module": module, "cfg": cfg, "distinct": r.distinct, "generated": r.generated,
                                "depth": r.depth, "wall_s": round(r.wall, 1), "violated": r.violated,
                                "coverage": {k: list(v) for k, v in sorted(r.coverage.items())[:60]}})
        log("  [%s] TLC %s %s: %d distinct / %d generated states, depth %d, %.1fs%s"
            % (self.prop, module, cfg, r.distinct, r.generated, r.depth, r.wall,
               (" VIOLATED " + r.violated) if r.violated else ""))

    def add_traces(self, n_exec, n_events=0):
        self.traces += n_exec
        self.events += n_events

    def sample(self, x, limit=6):
        if len(self.samples) < limit:
            self.samples.append(x)

    # -- verdicts ---------------------------------------------------------------------------
    def finding(self, signature, what, replay_obj):
        """report one failing case. `signature` is a stable normalised description of the failing
        input / history (no addresses, no line numbers). Known signatures are KNOWN-FINDINGs."""
        for k in self.known:
            if k.get("status") == "known" and sig_match(k["signature"], signature):
                if k["signature"] not in self.known_hits:
                    log("KNOWN-FINDING: property=%s %s [%s]" % (self.prop, k.get("what", what), k["signature"]))
                self.known_hits[k["signature"]] = self.known_hits.get(k["signature"], 0) + 1
                return False
        if any(v[0] == signature for v in self.violations):
            return True
        h = hashlib.sha1(signature.encode()).hexdigest()[:10]
        path = os.path.join(REPLAYS, "%s-%s.json" % (self.prop, h))
        with open(path, "w") as f:
            json.dump({"property": self.prop, "signature": signature, "what": what, "seed": self.seed,
                       "tier": self.tier, "case": replay_obj}, f, indent=1)
        self.violations.append((signature, path, what))
        log("VIOLATION property=%s replay=%s" % (self.prop, path))
        log("  signature: %s\n  what: %s" % (signature, what))
        return True

    def write_evidence(self):
        cov = {
            "states": max(self.states, 0),
            "transitions": max(self.transitions, 0),
            "traces_validated_against_impl": self.traces,
            "events_validated": self.events,
            "samples": self.samples or ["(no sample recorded)"],
            "exhaustive": bool(self.exhaustive),
            "model_runs": self.model_runs,
            "known_findings_hit": self.known_hits,
            "notes": self.notes[-40:],
        }
        cov.update(self.extra)
        ev = {
            "property_id": self.prop,
            "tier": getattr(self, "evidence_tier", self.tier),
            "seed": int(self.seed),
            "level": "model_checking",
            "coverage": cov,
            "assumptions": self.assumptions,
            "wall_s": round(time.time() - self.t0, 1),
            "violations": len(self.violations),
        }
        with open(os.path.join(EVIDENCE, self.prop + ".json"), "w") as f:
            json.dump(ev, f, indent=1)

    def finish(self):
        self.write_evidence()
        shutil.rmtree(self.build_dir, ignore_errors=True)
        if self.violations:
            return 1
        log("OK property=%s tier=%s states=%d traces=%d events=%d known=%s wall=%.0fs"
            % (self.prop, self.tier, self.states, self.traces, self.events,
               dict(self.known_hits), time.time() - self.t0))
        return 0


def sig_match(pattern, signature):
    """known-finding signatures may end in '*' (prefix match); otherwise exact"""
    if pattern.endswith("*"):
        return signature.startswith(pattern[:-1])
    return pattern == signature


def load_known(prop):
    res = []
    if os.path.exists(KNOWN):
        for line in open(KNOWN):
            line = line.strip()
            if not line or line.startswith("#"):
                continue
            k = json.loads(line)
            if k.get("property") == prop:
                res.append(k)
    return res


def write_lines(path, lines):
    with open(path, "w") as f:
        for l in lines:
            f.write(l if isinstance(l, str) else json.dumps(l, separators=(",", ":")))
            f.write("\n")
    return path


def read_ndjson(path):
    out = []
    with open(path) as f:
        for line in f:
            line = line.strip()
            if line:
                out.append(json.loads(line))
    return out


# ------------------------------------------------------------------------------------------
# behaviour generation helpers
# ------------------------------------------------------------------------------------------
def behaviours(r):
    """histories printed by a generator spec as <<"BEHAVIOUR", ToJson(hist)>>"""
    res = []
    for p in r.prints:
        if p and p[0] == "BEHAVIOUR":
            res.append(json.loads(p[1]))
    return res


def write_cfg(check, name, text):
    """write a TLC config into the build dir (configs with run-dependent constants)"""
    path = os.path.join(check.build_dir, name)
    with open(path, "w") as f:
        f.write(text)
    return path


def generate(check, module_dir, module, cfg, *, simulate=None, depth=None, seed=None, timeout=900, workers=None):
    """run a generator spec; -> list of behaviours (each a list of ops)"""
    r = tlc(module_dir, module, cfg, simulate=simulate, depth=depth, seed=seed, timeout=timeout, workers=workers)
    if r.violated or r.error:
        raise ToolFailure("generator %s %s failed: %s %s\n%s" % (module, cfg, r.violated, r.error, r.out[-3000:]))
    b = behaviours(r)
    if not b:
        raise ToolFailure("generator %s %s produced no behaviour\n%s" % (module, cfg, r.out[-3000:]))
    if not simulate:
        check.add_model_run(module, os.path.basename(cfg), r)
    return b


def chunks(seq, n):
    """split seq into n nearly equal consecutive parts (non-empty ones only)"""
    k, m = divmod(len(seq), n)
    out, i = [], 0
    for j in range(n):
        size = k + (1 if j < m else 0)
        if size:
            out.append(seq[i:i + size])
        i += size
    return out
