#!/usr/bin/env python3
"""tools/seed_verify.py <ID> [--src /tmp/seed_out/<ID>] [--no-suite]

Confirms a seeded change delivered by a red-team agent and files it under /verif/seeded/<ID>/:
  1. the demonstration passes on the unchanged tree and fails with the patch,
  2. the patched tree still passes the 70 stable baseline tests (incremental build in a scratch worktree),
  3. runs ./check <ID> against the patched tree (tools/seedtest.sh) and records whether it is detected.
Nothing is written to /repo."""
import json
import os
import re
import shutil
import subprocess
import sys

V = "/verif"
WT = os.environ.get("SEEDVERIFY_WT", "/tmp/seedverify")


def sh(cmd, cwd=None, timeout=3600):
    p = subprocess.run(cmd, shell=True, cwd=cwd, stdout=subprocess.PIPE, stderr=subprocess.STDOUT,
                       universal_newlines=True, errors="replace", timeout=timeout)
    return p.returncode, p.stdout


def build_cmd(demo_src):
    lines = open(demo_src).read().splitlines()
    cmd = []
    for l in lines[:12]:
        m = re.match(r"\s*//\s*(build[^:]*:)?\s*(.*)", l)
        if not m:
            break
        t = m.group(2).strip()
        if cmd or "g++" in t or "gcc" in t or t.startswith("WT="):
            if not t or not ("g++" in t or "gcc" in t or "-I" in t or t.startswith("WT=") or t.startswith("$") or cmd and cmd[-1].endswith("\\")):
                if cmd:
                    break
                continue
            cmd.append(t)
    c = " ".join(x.rstrip("\\") for x in cmd)
    c = re.sub(r"/tmp/seed\d+", WT, c)
    c = c.replace("<wt>", WT).replace("$WT", WT) if "WT=" not in c else c.replace("<wt>", WT)
    c = re.sub(r"\s{2,}\(.*$", "", c)          # trailing explanation in parentheses
    c = re.sub(r"^cd\s+\S+\s*&&\s*", "", c)     # build in the scratch copy, not in the delivery directory
    c = re.sub(r"&&\s*\./\S+.*$", "", c).strip()
    return c


def run_demo(src_dir, tag):
    d = "%s_demo_%s" % (WT, tag)
    shutil.rmtree(d, ignore_errors=True)
    shutil.copytree(src_dir, d, ignore=shutil.ignore_patterns("demo", "demo_p", "demo_mut", "a.out", "demo_c*", "*.o"))
    cmd = build_cmd(os.path.join(d, "demo.cpp"))
    rc, out = sh(cmd, cwd=d)
    if rc != 0:
        return None, "build failed: %s\n%s" % (cmd, out[-1500:])
    exe = None
    m = re.search(r"-o\s+(\S+)", cmd)
    for cand in ([m.group(1)] if m else []) + ["demo", "a.out"]:
        if os.path.exists(os.path.join(d, cand)):
            exe = cand
            break
    if not exe:
        return None, "no executable produced by: " + cmd
    rc, out = sh("timeout 600 ./%s" % exe, cwd=d)
    shutil.rmtree(d, ignore_errors=True)
    return rc, out[-800:]


def main():
    pid = sys.argv[1]
    src = "/tmp/seed_out/%s" % pid
    suite = "--no-suite" not in sys.argv
    if "--src" in sys.argv:
        src = sys.argv[sys.argv.index("--src") + 1]
    res = {"property": pid}
    if "--suite-only" in sys.argv:
        # second pass: only confirm that the 70 stable tests still pass with the patch; update the filed meta.json
        dst = os.path.join(V, "seeded", pid)
        sh("git checkout -q --detach $(git -C /repo rev-parse HEAD) && git reset -q --hard && git clean -fdq -e _build", cwd=WT)
        rc, out = sh("git apply %s/patch.diff 2>&1 || patch -p1 -s < %s/patch.diff" % (dst, dst), cwd=WT)
        rc, out = sh("BASELINE_REPO=%s %s/tools/baseline_off.sh" % (WT, V))
        sh("git reset -q --hard && git clean -fdq -e _build", cwd=WT)
        meta = json.load(open(os.path.join(dst, "meta.json")))
        meta.setdefault("verified_by_maintainer", {})["baseline_with_patch"] = out.strip().splitlines()[-1] if out.strip() else "no output"
        meta["verified_by_maintainer"]["baseline_ok"] = rc == 0
        json.dump(meta, open(os.path.join(dst, "meta.json"), "w"), indent=1)
        print(pid, meta["verified_by_maintainer"]["baseline_with_patch"])
        return
    if not os.path.exists(WT):
        sh("git -C /repo worktree add -q --detach %s HEAD" % WT)
    sh("git checkout -q --detach $(git -C /repo rev-parse HEAD) && git reset -q --hard && git clean -fdq -e _build", cwd=WT)
    patch = os.path.join(src, "patch.diff")
    rc0, out0 = run_demo(src, "clean")
    res["demo_unpatched"] = {"exit": rc0, "tail": out0[-300:]}
    rc, out = sh("git apply --3way %s 2>&1 || git apply %s 2>&1 || patch -p1 -s < %s" % (patch, patch, patch), cwd=WT)
    res["patch_applies"] = rc == 0
    if rc != 0:
        res["error"] = out[-500:]
    else:
        rc1, out1 = run_demo(src, "patched")
        res["demo_patched"] = {"exit": rc1, "tail": out1[-300:]}
        if suite:
            rc, out = sh("BASELINE_REPO=%s %s/tools/baseline_off.sh" % (WT, V))
            res["baseline_with_patch"] = out.strip().splitlines()[-1] if out.strip() else "no output"
            res["baseline_ok"] = rc == 0
    sh("git reset -q --hard && git clean -fdq -e _build", cwd=WT)
    ok = rc0 == 0 and res.get("patch_applies") and res.get("demo_patched", {}).get("exit") not in (0, None) and (res.get("baseline_ok") or not suite)
    res["confirmed"] = bool(ok)
    if ok:
        dst = os.path.join(V, "seeded", pid)
        os.makedirs(dst, exist_ok=True)
        for f in os.listdir(src):
            if f in ("patch.diff", "meta.json") or f.endswith((".cpp", ".hpp", ".h", ".txt", ".sh")):
                shutil.copy(os.path.join(src, f), os.path.join(dst, f))
        rc, out = sh("%s/tools/seedtest.sh %s %s/patch.diff quick" % (V, pid, dst))
        res["check_exit"] = rc
        res["check_output"] = out.strip().splitlines()[-8:]
        res["detected"] = rc == 1 and "VIOLATION" in out
        meta = {}
        mp = os.path.join(dst, "meta.json")
        if os.path.exists(mp):
            try:
                meta = json.load(open(mp))
            except ValueError:
                meta = {"raw": open(mp).read()}
        meta["verified_by_maintainer"] = res
        json.dump(meta, open(mp, "w"), indent=1)
    print(json.dumps(res, indent=1))


if __name__ == "__main__":
    main()
