#!/bin/bash
# tools/seed_queue.sh ID...   verify seeds one after the other; one summary line each in build/seed_verify.log
cd /verif; mkdir -p build/seedlogs
for id in "$@"; do
  [ -f /tmp/seed_out/$id/patch.diff ] || { echo "$id no patch" >> build/seed_verify.log; continue; }
  tools/seed_verify.py $id $SEED_ARGS > build/seedlogs/$id.json 2>&1
  echo "$id $(python3 -c "
import json
try:
    r=json.load(open('build/seedlogs/$id.json')); print('confirmed',r.get('confirmed'),'detected',r.get('detected'),'demo',r.get('demo_unpatched',{}).get('exit'),r.get('demo_patched',{}).get('exit'),r.get('baseline_with_patch'),r.get('error','')[:100])
except Exception as e: print('ERR',e)")" >> build/seed_verify.log
done
